//! Seeded search over runs, minimisation, replay, evidence.

use crate::monitor::{shape_hash, Cells, Finding};
use crate::plan::{Op, Plan};
use crate::profile::{base_plan, Profile};
use crate::reg::Reg;
use crate::rng::{mix, Rng};
use crate::world::{execute, Outcome, RunRecord};
use rt::bb::Ev;
use serde_json::{json, Value};
use std::collections::{BTreeMap, BTreeSet};
use std::time::Instant;

thread_local! {
    /// faults that are injected as operations (damaged or mis-addressed documents, ...) are noted
    /// here by the profile while it draws the history; never read back by the generation
    static OP_FAULTS: std::cell::RefCell<BTreeMap<&'static str, u64>> = const { std::cell::RefCell::new(BTreeMap::new()) };
}

/// count one operation-level fault of kind `tag` for the run that is being generated
pub fn note_op_fault(tag: &'static str) {
    OP_FAULTS.with(|m| *m.borrow_mut().entry(tag).or_insert(0) += 1);
}

fn take_op_faults() -> BTreeMap<&'static str, u64> {
    OP_FAULTS.with(|m| std::mem::take(&mut *m.borrow_mut()))
}

pub struct RunOut {
    pub plan: Plan,
    pub armed: Vec<Finding>,
    pub collateral: Vec<Finding>,
    pub cells: Cells,
    pub shape: (u64, bool),
    pub txs: u64,
    pub deliveries: u64,
    pub sim_seconds: u64,
    pub sim_blocks: u64,
    pub fired: BTreeMap<&'static str, u64>,
    pub log_hash: u64,
    pub harness_error: Option<String>,
    pub executions: u64,
}

pub fn log_hash(rec: &RunRecord) -> u64 {
    let mut h: u64 = 0xcbf29ce484222325;
    let mut feed = |b: &[u8]| {
        for x in b {
            h ^= *x as u64;
            h = h.wrapping_mul(0x100000001b3);
        }
    };
    for op in &rec.ops {
        feed(serde_json::to_string(&op.events).unwrap().as_bytes());
        feed(serde_json::to_string(&op.outcome).unwrap().as_bytes());
        feed(serde_json::to_string(&op.outcome1).unwrap().as_bytes());
        feed(serde_json::to_string(&op.state).unwrap().as_bytes());
        feed(serde_json::to_string(&op.state1).unwrap().as_bytes());
    }
    h
}

/// generate the plan of run `run` under `seed` (may execute the world to learn addresses and
/// to place faults), then execute it and evaluate the monitors
pub fn run_one(p: &dyn Profile, reg: &Reg, seed: u64, run: u64) -> RunOut {
    let mut rng = Rng::new(mix(seed, &format!("{}/{}", p.property(), p.name()), run));
    // the chain's address format is one more thing that varies per run
    let prefix = if rng.chance(1, 4) { *rng.pick(&crate::world::PREFIXES) } else { "cosmwasm" };
    crate::world::set_prefix(prefix);
    let _ = take_op_faults();
    let wp = p.gen_world(&mut rng, reg);
    let mut plan = base_plan(p, seed, run, &wp);
    let mut executions = 1;
    let base = execute(&plan, reg);
    if let Some(e) = &base.harness_error {
        return harness_fail(plan, format!("setup: {e}"));
    }
    plan.ops = p.gen_ops(&mut rng, reg, &wp, &base);
    if p.wants_faults() {
        let recon = execute(&plan, reg);
        executions += 1;
        plan.faults = p.gen_faults(&mut rng, reg, &recon);
    }
    let rec = execute(&plan, reg);
    executions += 1;
    let mut out = evaluate(p, reg, plan, &rec);
    out.executions = executions;
    // operation-level faults of this run: noted by the profile, plus what the plan itself shows
    for (k, v) in take_op_faults() {
        *out.fired.entry(k).or_insert(0) += v;
    }
    for op in out.plan.ops.iter() {
        let (tag, doc): (Option<&'static str>, Option<&crate::plan::Doc>) = match op {
            Op::Block { dh: 0, .. } => (Some("op_clock_moved_time_only"), None),
            Op::Block { .. } => (Some("op_clock_moved"), None),
            Op::Poke { .. } => (Some("op_storage_poked"), None),
            Op::Migrate { msg, .. } => (Some("op_code_replaced"), Some(msg)),
            Op::Exec { msg, .. } | Op::Sudo { msg, .. } | Op::Instantiate { msg, .. } | Op::Query { msg, .. } => (None, Some(msg)),
            Op::Twin(_) => (None, None),
        };
        let twin_text = match op {
            Op::Twin(t) => Some(t.args.to_string()),
            _ => None,
        };
        if let Some(t) = tag {
            *out.fired.entry(t).or_insert(0) += 1;
        }
        if let Some(text) = doc.map(|d| d.lossy()).or(twin_text) {
            let fails = text.matches("\"fail\":{").count() as u64;
            let panics = text.matches("\"panic\":{").count() as u64;
            if fails > 0 {
                *out.fired.entry("op_scripted_failure").or_insert(0) += fails;
            }
            if panics > 0 {
                *out.fired.entry("op_scripted_panic").or_insert(0) += panics;
            }
        }
    }
    out
}

fn harness_fail(plan: Plan, e: String) -> RunOut {
    RunOut {
        plan,
        armed: vec![],
        collateral: vec![],
        cells: Cells::default(),
        shape: (0, false),
        txs: 0,
        deliveries: 0,
        sim_seconds: 0,
        sim_blocks: 0,
        fired: BTreeMap::new(),
        log_hash: 0,
        harness_error: Some(e),
        executions: 1,
    }
}

pub fn evaluate(p: &dyn Profile, reg: &Reg, plan: Plan, rec: &RunRecord) -> RunOut {
    let mut cells = Cells::default();
    let mut harness_error = rec.harness_error.clone();
    let findings = match std::panic::catch_unwind(std::panic::AssertUnwindSafe(|| {
        let mut c = Cells::default();
        let f = p.check(&plan, rec, reg, &mut c);
        (f, c)
    })) {
        Ok((f, c)) => {
            cells = c;
            f
        }
        Err(_) => {
            harness_error = Some(format!("a monitor panicked: {}", crate::world::last_panic()));
            vec![]
        }
    };
    cells.hit(format!("world.prefix|{}", plan.prefix));
    if plan.ops.len() >= 100 {
        cells.hit("world.long_history");
    }
    let (armed, collateral): (Vec<_>, Vec<_>) =
        findings.into_iter().partition(|f| f.property == p.property());
    let mut txs = 0;
    let mut deliveries = 0;
    let mut sim_seconds = 0;
    let mut sim_blocks = 0;
    for (i, op) in plan.setup.iter().chain(plan.ops.iter()).enumerate() {
        match op {
            Op::Block { dh, dt } => {
                sim_seconds += dt;
                sim_blocks += dh;
            }
            _ => txs += 1,
        }
        if let Some(r) = rec.ops.get(i) {
            deliveries += r.events.iter().filter(|e| matches!(e, Ev::Deliver { .. })).count() as u64;
        }
    }
    RunOut {
        shape: shape_hash(rec),
        log_hash: log_hash(rec),
        harness_error,
        plan,
        armed,
        collateral,
        cells,
        txs,
        deliveries,
        sim_seconds,
        sim_blocks,
        fired: rec.fired.clone(),
        executions: 1,
    }
}

/// does this explicit plan still show a finding of the same class?
pub fn reproduces(p: &dyn Profile, reg: &Reg, plan: &Plan, oracle: &str) -> Option<Finding> {
    let rec = execute(plan, reg);
    if rec.harness_error.is_some() {
        return None;
    }
    let mut cells = Cells::default();
    p.check(plan, &rec, reg, &mut cells)
        .into_iter()
        .find(|f| f.property == p.property() && f.oracle == oracle)
}

fn drop_op(plan: &Plan, k: usize) -> Plan {
    let mut q = plan.clone();
    q.ops.remove(k);
    let abs = (plan.setup.len() + k) as u32;
    q.faults = plan
        .faults
        .iter()
        .filter(|((o, _), _)| *o != abs)
        .map(|((o, n), f)| ((if *o > abs { o - 1 } else { *o }, *n), f.clone()))
        .collect();
    q
}

/// shrink the explicit op list and fault plan while the same oracle keeps firing
pub fn minimise(p: &dyn Profile, reg: &Reg, plan: &Plan, oracle: &str) -> Plan {
    let mut cur = plan.clone();
    let mut budget = 600;
    loop {
        let mut changed = false;
        // drop ops, last first
        let mut k = cur.ops.len();
        while k > 0 && budget > 0 {
            k -= 1;
            let cand = drop_op(&cur, k);
            budget -= 1;
            if reproduces(p, reg, &cand, oracle).is_some() {
                cur = cand;
                changed = true;
            }
        }
        // drop faults
        let mut k = cur.faults.len();
        while k > 0 && budget > 0 {
            k -= 1;
            let mut cand = cur.clone();
            cand.faults.remove(k);
            budget -= 1;
            if reproduces(p, reg, &cand, oracle).is_some() {
                cur = cand;
                changed = true;
            }
        }
        // simplify scripts inside exec documents: drop steps of the top-level script
        for k in 0..cur.ops.len() {
            loop {
                let Some(n) = top_script_len(&cur.ops[k]) else { break };
                let mut any = false;
                for s in (0..n).rev() {
                    if budget == 0 {
                        break;
                    }
                    let mut cand = cur.clone();
                    if !drop_top_step(&mut cand.ops[k], s) {
                        continue;
                    }
                    budget -= 1;
                    if reproduces(p, reg, &cand, oracle).is_some() {
                        cur = cand;
                        any = true;
                        changed = true;
                        break;
                    }
                }
                if !any {
                    break;
                }
            }
        }
        // ... and steps anywhere inside (scripts nested in the arguments of calls, base64 included)
        for k in 0..cur.ops.len() {
            loop {
                let mut any = false;
                for cand_op in deep_variants(&cur.ops[k]) {
                    if budget == 0 {
                        break;
                    }
                    let mut cand = cur.clone();
                    cand.ops[k] = cand_op;
                    budget -= 1;
                    if reproduces(p, reg, &cand, oracle).is_some() {
                        cur = cand;
                        any = true;
                        changed = true;
                        break;
                    }
                }
                if !any || budget == 0 {
                    break;
                }
            }
        }
        if !changed || budget == 0 {
            break;
        }
    }
    cur
}

/// every value obtained from `v` by removing exactly one step of one script, at any depth;
/// scripts hide in `"script": [..]` members and inside base64 `args` of calls made by scripts
fn json_variants(v: &Value) -> Vec<Value> {
    let mut out = vec![];
    match v {
        Value::Object(o) => {
            for (k, child) in o {
                if k == "script" {
                    if let Some(arr) = child.as_array() {
                        for i in 0..arr.len() {
                            let mut a = arr.clone();
                            a.remove(i);
                            let mut n = o.clone();
                            n.insert(k.clone(), Value::Array(a));
                            out.push(Value::Object(n));
                        }
                    }
                }
                if k == "args" || k == "payload" {
                    if let Some(inner) = child.as_str().and_then(|s| sylvia::cw_std::Binary::from_base64(s).ok()).and_then(|b| serde_json::from_slice::<Value>(b.as_slice()).ok()) {
                        for var in json_variants(&inner) {
                            let mut n = o.clone();
                            n.insert(k.clone(), Value::String(sylvia::cw_std::Binary::from(serde_json::to_vec(&var).unwrap()).to_base64()));
                            out.push(Value::Object(n));
                        }
                        continue;
                    }
                }
                for var in json_variants(child) {
                    let mut n = o.clone();
                    n.insert(k.clone(), var);
                    out.push(Value::Object(n));
                }
            }
        }
        Value::Array(a) => {
            for (i, child) in a.iter().enumerate() {
                for var in json_variants(child) {
                    let mut n = a.clone();
                    n[i] = var;
                    out.push(Value::Array(n));
                }
            }
        }
        _ => {}
    }
    out
}

fn deep_variants(op: &Op) -> Vec<Op> {
    let rebuild = |doc: &crate::plan::Doc, intent: &Option<crate::plan::Intent>, flat: bool| -> Vec<(crate::plan::Doc, Option<crate::plan::Intent>)> {
        let Ok(v) = serde_json::from_slice::<Value>(&doc.0) else { return vec![] };
        json_variants(&v)
            .into_iter()
            .map(|nv| {
                let it = intent.as_ref().map(|i| {
                    let mut i = i.clone();
                    i.args = if flat { nv.clone() } else { nv.as_object().and_then(|o| o.values().next().cloned()).unwrap_or(Value::Null) };
                    i
                });
                (crate::plan::Doc(serde_json::to_vec(&nv).unwrap()), it)
            })
            .collect()
    };
    match op {
        Op::Exec { target, sender, msg, funds, intent } => rebuild(msg, intent, false).into_iter().map(|(m, i)| Op::Exec { target: target.clone(), sender: sender.clone(), msg: m, funds: funds.clone(), intent: i }).collect(),
        Op::Sudo { target, msg, intent } => rebuild(msg, intent, false).into_iter().map(|(m, i)| Op::Sudo { target: target.clone(), msg: m, intent: i }).collect(),
        Op::Migrate { target, sender, code, msg, intent } => rebuild(msg, intent, true).into_iter().map(|(m, i)| Op::Migrate { target: target.clone(), sender: sender.clone(), code: *code, msg: m, intent: i }).collect(),
        Op::Instantiate { code, sender, msg, label, admin, funds, salt, intent } => rebuild(msg, intent, true)
            .into_iter()
            .map(|(m, i)| Op::Instantiate { code: *code, sender: sender.clone(), msg: m, label: label.clone(), admin: admin.clone(), funds: funds.clone(), salt: salt.clone(), intent: i })
            .collect(),
        Op::Twin(t) => json_variants(&t.args)
            .into_iter()
            .map(|a| {
                let mut n = t.clone();
                n.args = a;
                Op::Twin(n)
            })
            .collect(),
        _ => vec![],
    }
}

fn script_path(op: &Op) -> Option<(Value, Vec<String>)> {
    // (document, path to the script array)
    let (doc, _) = match op {
        Op::Exec { msg, .. } | Op::Sudo { msg, .. } => (msg, ()),
        _ => return None,
    };
    let v: Value = serde_json::from_slice(&doc.0).ok()?;
    let o = v.as_object()?;
    if o.len() != 1 {
        return None;
    }
    let (k, body) = o.iter().next()?;
    if body.get("script").map(|s| s.is_array()).unwrap_or(false) {
        Some((v.clone(), vec![k.clone(), "script".to_string()]))
    } else {
        None
    }
}

fn top_script_len(op: &Op) -> Option<usize> {
    let (v, path) = script_path(op)?;
    v[&path[0]][&path[1]].as_array().map(|a| a.len())
}

fn drop_top_step(op: &mut Op, s: usize) -> bool {
    let Some((mut v, path)) = script_path(op) else { return false };
    let Some(arr) = v[&path[0]][&path[1]].as_array_mut() else { return false };
    if s >= arr.len() {
        return false;
    }
    arr.remove(s);
    let bytes = serde_json::to_vec(&v).unwrap();
    match op {
        Op::Exec { msg, intent, .. } | Op::Sudo { msg, intent, .. } => {
            msg.0 = bytes;
            if let Some(i) = intent {
                i.args = v[&path[0]].clone();
            }
            true
        }
        _ => false,
    }
}

pub struct Agg {
    pub runs: u64,
    pub executions: u64,
    pub txs: u64,
    pub deliveries: u64,
    pub sim_seconds: u64,
    pub sim_blocks: u64,
    pub shapes: BTreeSet<u64>,
    pub nontrivial_shapes: BTreeSet<u64>,
    pub cells: Cells,
    pub fired: BTreeMap<String, u64>,
    pub collateral: BTreeMap<String, u64>,
    pub collateral_samples: Vec<String>,
    pub failing: Vec<(u64, Finding)>,
    pub known_hits: BTreeMap<String, u64>,
    pub harness: Vec<(u64, String)>,
    pub samples: Vec<Value>,
    pub log_hashes: Vec<(u64, u64)>,
}

impl Agg {
    fn new() -> Agg {
        Agg {
            runs: 0,
            executions: 0,
            txs: 0,
            deliveries: 0,
            sim_seconds: 0,
            sim_blocks: 0,
            shapes: BTreeSet::new(),
            nontrivial_shapes: BTreeSet::new(),
            cells: Cells::default(),
            fired: BTreeMap::new(),
            collateral: BTreeMap::new(),
            collateral_samples: vec![],
            failing: vec![],
            known_hits: BTreeMap::new(),
            harness: vec![],
            samples: vec![],
            log_hashes: vec![],
        }
    }
    fn absorb(&mut self, run: u64, o: RunOut, keep_hashes: bool, known: &[crate::cli::Known]) {
        self.runs += 1;
        self.executions += o.executions;
        self.txs += o.txs;
        self.deliveries += o.deliveries;
        self.sim_seconds += o.sim_seconds;
        self.sim_blocks += o.sim_blocks;
        self.shapes.insert(o.shape.0);
        if o.shape.1 {
            self.nontrivial_shapes.insert(o.shape.0);
        }
        self.cells.merge(&o.cells);
        for (k, v) in &o.fired {
            *self.fired.entry(k.to_string()).or_insert(0) += v;
        }
        for f in &o.collateral {
            *self.collateral.entry(format!("{}:{}", f.property, f.oracle)).or_insert(0) += 1;
            if self.collateral_samples.len() < 3 {
                self.collateral_samples.push(format!("run {} {}:{} {}", run, f.property, f.oracle, f.detail));
            }
        }
        let mut first_new = None;
        for f in o.armed.into_iter() {
            match crate::cli::is_known(known, &f) {
                Some(k) => {
                    *self
                        .known_hits
                        .entry(format!("oracle={} {}", k.oracle, k.what))
                        .or_insert(0) += 1
                }
                None => {
                    if first_new.is_none() {
                        first_new = Some(f)
                    }
                }
            }
        }
        if let Some(f) = first_new {
            self.failing.push((run, f));
        }
        if let Some(e) = o.harness_error {
            self.harness.push((run, e));
        }
        if run < 3 {
            self.samples.push(json!({"run": run, "ops": o.plan.ops, "faults": o.plan.faults, "codes": o.plan.codes}));
        }
        if keep_hashes {
            self.log_hashes.push((run, o.log_hash));
        }
    }
    fn merge(&mut self, o: Agg) {
        self.runs += o.runs;
        self.executions += o.executions;
        self.txs += o.txs;
        self.deliveries += o.deliveries;
        self.sim_seconds += o.sim_seconds;
        self.sim_blocks += o.sim_blocks;
        self.shapes.extend(o.shapes);
        self.nontrivial_shapes.extend(o.nontrivial_shapes);
        self.cells.merge(&o.cells);
        for (k, v) in o.fired {
            *self.fired.entry(k).or_insert(0) += v;
        }
        for (k, v) in o.collateral {
            *self.collateral.entry(k).or_insert(0) += v;
        }
        self.failing.extend(o.failing);
        self.collateral_samples.extend(o.collateral_samples);
        for (k, v) in o.known_hits {
            *self.known_hits.entry(k).or_insert(0) += v;
        }
        self.harness.extend(o.harness);
        self.samples.extend(o.samples);
        self.log_hashes.extend(o.log_hashes);
    }
}

/// many runs over `workers` threads; the result does not depend on the worker count
pub fn sweep(
    p: &dyn Profile,
    reg: &Reg,
    seed: u64,
    first: u64,
    runs: u64,
    workers: usize,
    keep_hashes: bool,
    deadline: Option<Instant>,
    known: &[crate::cli::Known],
) -> Agg {
    let workers = workers.max(1);
    let mut total = Agg::new();
    let parts: Vec<Agg> = std::thread::scope(|s| {
        let hs: Vec<_> = (0..workers)
            .map(|w| {
                // (deep call chains of the simulated chain recurse on the native stack)
                std::thread::Builder::new().stack_size(crate::STACK_BYTES).spawn_scoped(s, move || {
                    crate::world::install_panic_hook();
                    let mut agg = Agg::new();
                    let mut i = first + w as u64;
                    while i < first + runs {
                        if let Some(d) = deadline {
                            if Instant::now() > d {
                                break;
                            }
                        }
                        match crate::world::guarded(|| run_one(p, reg, seed, i)) {
                            Ok(o) => agg.absorb(i, o, keep_hashes, known),
                            Err(msg) => agg.harness.push((i, format!("the simulator itself panicked: {msg}"))),
                        }
                        i += workers as u64;
                    }
                    agg
                })
                .expect("spawn worker")
            })
            .collect();
        hs.into_iter().map(|h| h.join().expect("worker")).collect()
    });
    for a in parts {
        total.merge(a);
    }
    total.failing.sort_by_key(|x| x.0);
    total.harness.sort_by_key(|x| x.0);
    total.samples.sort_by_key(|s| s["run"].as_u64());
    total.log_hashes.sort();
    total
}

pub fn outcome_brief(o: &Outcome) -> String {
    match o {
        Outcome::Err(v) => format!("err:{}", v["class"].as_str().unwrap_or("?")),
        Outcome::Panic(p) => format!("panic:{}", p.chars().take(80).collect::<String>()),
        _ => "ok".to_string(),
    }
}
