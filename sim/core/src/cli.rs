//! Command line of the simulator binaries.

use crate::driver::{self, minimise, reproduces, run_one, sweep};
use crate::monitor::Finding;
use crate::plan::Plan;
use crate::profile::Profile;
use crate::reg::Reg;
use rt::spec::Entry;
use serde_json::{json, Value};
use std::path::PathBuf;
use std::time::{Duration, Instant};

#[derive(Clone, Debug)]
pub struct Known {
    pub property: String,
    pub oracle: String,
    pub needle: String,
    pub what: String,
}

pub fn load_known(path: &str) -> Vec<Known> {
    let Ok(text) = std::fs::read_to_string(path) else { return vec![] };
    let mut out = vec![];
    for line in text.lines() {
        let line = line.trim();
        let Some(rest) = line.strip_prefix("known:") else { continue };
        let mut k = Known { property: String::new(), oracle: String::new(), needle: String::new(), what: String::new() };
        let (fields, what) = rest.split_once(" -- ").unwrap_or((rest, ""));
        k.what = what.trim().to_string();
        for tok in fields.split_whitespace() {
            if let Some(v) = tok.strip_prefix("property=") {
                k.property = v.to_string();
            } else if let Some(v) = tok.strip_prefix("oracle=") {
                k.oracle = v.to_string();
            } else if let Some(v) = tok.strip_prefix("match=") {
                k.needle = v.replace("%20", " ");
            }
        }
        if !k.property.is_empty() && !k.oracle.is_empty() {
            out.push(k);
        }
    }
    out
}

pub fn is_known<'a>(known: &'a [Known], f: &Finding) -> Option<&'a Known> {
    known
        .iter()
        .find(|k| k.property == f.property && k.oracle == f.oracle && f.detail.contains(&k.needle))
}

fn arg_val(args: &[String], name: &str) -> Option<String> {
    args.iter().position(|a| a == name).and_then(|i| args.get(i + 1).cloned())
}

pub type ProfileTable = fn(&str) -> Vec<(Box<dyn Profile>, u64)>;

pub fn main(entries: Vec<Entry>, dyn_peers: Vec<(&'static str, rt::registry::PeerFns)>, table: ProfileTable) -> ! {
    // anyhow embeds backtraces in error text when these are set; the event log must not depend on it
    let bt = std::env::var("RUST_BACKTRACE").unwrap_or_default();
    let lbt = std::env::var("RUST_LIB_BACKTRACE").unwrap_or_default();
    if (bt != "0" || lbt != "0") && std::env::var("SIMRUN_REEXEC").is_err() {
        let exe = std::env::current_exe().expect("current_exe");
        let st = std::process::Command::new(exe)
            .args(std::env::args().skip(1))
            .env("RUST_BACKTRACE", "0")
            .env("RUST_LIB_BACKTRACE", "0")
            .env("SIMRUN_REEXEC", "1")
            .status()
            .expect("re-exec");
        std::process::exit(st.code().unwrap_or(2));
    }
    crate::world::install_panic_hook();
    let args: Vec<String> = std::env::args().skip(1).collect();
    let reg = Reg::new(entries, dyn_peers);
    let run = move || crate::world::guarded(|| match args.first().map(|s| s.as_str()) {
        Some("check") => cmd_check(&args[1..], &reg, table),
        Some("replay") => cmd_replay(&args[1..], &reg, table),
        Some("hashes") => cmd_hashes(&args[1..], &reg, table),
        Some("probe") => cmd_probe(&args[1..], &reg, table),
        Some("show") => cmd_show(&args[1..], &reg, table),
        _ => {
            eprintln!("usage: check <PROP> --tier quick|thorough [--seed N] [--runs N] [--workers N] [--evidence F] [--replays D] [--known F]\n       replay <file>\n       hashes <PROP> --seed N --runs N --workers N\n       show <PROP> --seed N --run N");
            2
        }
    });
    let code = std::thread::Builder::new().stack_size(crate::STACK_BYTES).spawn(run).expect("spawn").join().unwrap_or(Err("main worker died".to_string()));
    let code = match code {
        Ok(c) => c,
        Err(msg) => {
            println!("HARNESS ERROR: the simulator itself panicked: {msg}");
            2
        }
    };
    std::process::exit(code);
}

fn pick_profile<'a>(ps: &'a [(Box<dyn Profile>, u64)], name: &str) -> Option<&'a dyn Profile> {
    ps.iter().find(|(p, _)| p.name() == name).map(|(p, _)| p.as_ref())
}

fn cmd_show(args: &[String], reg: &Reg, table: ProfileTable) -> i32 {
    let prop = args.first().cloned().unwrap_or_default();
    let seed: u64 = arg_val(args, "--seed").and_then(|s| s.parse().ok()).unwrap_or(1);
    let run: u64 = arg_val(args, "--run").and_then(|s| s.parse().ok()).unwrap_or(0);
    let ps = table(&prop);
    let which = arg_val(args, "--profile");
    for (p, _) in &ps {
        if let Some(w) = &which {
            if p.name() != w {
                continue;
            }
        }
        let o = run_one(p.as_ref(), reg, seed, run);
        let rec = crate::world::execute(&o.plan, reg);
        println!("{}", serde_json::to_string_pretty(&json!({"plan": o.plan, "armed": o.armed, "collateral": o.collateral, "harness_error": o.harness_error,
            "ops": rec.ops.iter().map(|r| json!({"idx": r.idx, "outcome": r.outcome, "outcome1": r.outcome1, "events": r.events})).collect::<Vec<_>>() })).unwrap());
    }
    0
}

/// a short single-threaded slice of runs in this (fresh) process: state the code under test keeps
/// process-wide (statics, once-cells) starts from scratch here, whatever the main sweep did first
fn cmd_probe(args: &[String], reg: &Reg, table: ProfileTable) -> i32 {
    let prop = args.first().cloned().unwrap_or_default();
    let seed: u64 = arg_val(args, "--seed").and_then(|s| s.parse().ok()).unwrap_or(1);
    let first: u64 = arg_val(args, "--first").and_then(|s| s.parse().ok()).unwrap_or(0);
    let runs: u64 = arg_val(args, "--runs").and_then(|s| s.parse().ok()).unwrap_or(50);
    let profile = arg_val(args, "--profile").unwrap_or_default();
    if arg_val(args, "--tier").as_deref() == Some("thorough") {
        crate::set_scale(3);
    }
    let known = load_known(&arg_val(args, "--known").unwrap_or_else(|| "/verif/known_findings.txt".to_string()));
    let ps = table(&prop);
    let Some(p) = pick_profile(&ps, &profile) else { return 2 };
    for r in first..first + runs {
        let o = run_one(p, reg, seed, r);
        if let Some(e) = o.harness_error {
            println!("PROBE-HARNESS run={r} :: {e}");
            return 2;
        }
        if let Some(f) = o.armed.iter().find(|f| is_known(&known, f).is_none()) {
            println!("PROBE-FAIL run={} oracle={} :: {}", r, f.oracle, f.detail.replace('\n', " "));
            return 1;
        }
    }
    println!("PROBE-OK");
    0
}

fn cmd_hashes(args: &[String], reg: &Reg, table: ProfileTable) -> i32 {
    let prop = args.first().cloned().unwrap_or_default();
    let seed: u64 = arg_val(args, "--seed").and_then(|s| s.parse().ok()).unwrap_or(1);
    let runs: u64 = arg_val(args, "--runs").and_then(|s| s.parse().ok()).unwrap_or(100);
    let workers: usize = arg_val(args, "--workers").and_then(|s| s.parse().ok()).unwrap_or(1);
    if arg_val(args, "--tier").as_deref() == Some("thorough") {
        crate::set_scale(3);
    }
    for (p, _) in table(&prop) {
        let agg = sweep(p.as_ref(), reg, seed, 0, runs, workers, true, None, &[]);
        for (r, h) in agg.log_hashes {
            println!("{} {} {} {:016x}", prop, p.name(), r, h);
        }
    }
    0
}

fn cmd_replay(args: &[String], reg: &Reg, table: ProfileTable) -> i32 {
    let Some(path) = args.first() else { return 2 };
    let Ok(text) = std::fs::read_to_string(path) else {
        eprintln!("cannot read {path}");
        return 2;
    };
    let v: Value = match serde_json::from_str(&text) {
        Ok(v) => v,
        Err(e) => {
            eprintln!("bad replay file: {e}");
            return 2;
        }
    };
    if v.get("kind").and_then(|k| k.as_str()) == Some("thread-history") {
        let prop = v["property"].as_str().unwrap_or("").to_string();
        let oracle = v["oracle"].as_str().unwrap_or("").to_string();
        let seed = v["seed"].as_u64().unwrap_or(1);
        let run = v["run"].as_u64().unwrap_or(0);
        let workers = v["workers"].as_u64().unwrap_or(1).max(1);
        if v["tier"] == "thorough" {
            crate::set_scale(3);
        }
        let ps = table(&prop);
        let Some(p) = pick_profile(&ps, v["profile"].as_str().unwrap_or("")) else { return 2 };
        if let Some(limit) = v["search_limit"].as_u64() {
            // single-threaded search from a fresh process: deterministic by construction
            for r in 0..limit {
                let o = run_one(p, reg, seed, r);
                if let Some(f) = o.armed.iter().find(|f| f.oracle == oracle) {
                    let mut nb = v.clone();
                    nb.as_object_mut().unwrap().remove("search_limit");
                    nb["run"] = json!(r);
                    nb["workers"] = json!(1);
                    nb["finding"] = json!(f);
                    nb["note"] = json!("depends on process-wide state of the code under test; replay = runs 0..=run on one thread of a fresh process");
                    let out = std::path::Path::new(path).with_file_name(format!("{}-{}-{}-history.json", prop, seed, r));
                    std::fs::write(&out, serde_json::to_string_pretty(&nb).unwrap()).expect("write replay");
                    println!("REPRODUCED property={} oracle={} run={} :: {}", f.property, f.oracle, r, f.detail);
                    println!("VIOLATION property={} replay={}", f.property, out.display());
                    return 1;
                }
            }
            println!("NOT-REPRODUCED property={prop} oracle={oracle} (search limit {limit})");
            return 0;
        }
        let first = v["first"].as_u64().unwrap_or(0);
        let mut r = first + (run - first.min(run)) % workers;
        loop {
            let o = run_one(p, reg, seed, r);
            if r == run {
                return match o.armed.iter().find(|f| f.oracle == oracle) {
                    Some(f) => {
                        println!("REPRODUCED property={} oracle={} run={} :: {}", f.property, f.oracle, run, f.detail);
                        println!("VIOLATION property={} replay={}", f.property, path);
                        1
                    }
                    None => {
                        println!("NOT-REPRODUCED property={prop} oracle={oracle}");
                        0
                    }
                };
            }
            r += workers;
        }
    }
    if v.get("kind").and_then(|k| k.as_str()) == Some("build-gate") {
        println!("replay of a build-gate violation = rebuilding; see {}", v["log"]);
        return 2;
    }
    let plan: Plan = match serde_json::from_value(v["plan"].clone()) {
        Ok(p) => p,
        Err(e) => {
            eprintln!("bad plan: {e}");
            return 2;
        }
    };
    let oracle = v["oracle"].as_str().unwrap_or("").to_string();
    let ps = table(&plan.property);
    let Some(p) = pick_profile(&ps, &plan.profile) else {
        eprintln!("no profile {}", plan.profile);
        return 2;
    };
    match reproduces(p, reg, &plan, &oracle) {
        Some(f) => {
            println!("REPRODUCED property={} oracle={} op={} :: {}", f.property, f.oracle, f.op, f.detail);
            println!("VIOLATION property={} replay={}", f.property, path);
            1
        }
        None => {
            println!("NOT-REPRODUCED property={} oracle={}", plan.property, oracle);
            0
        }
    }
}

fn cmd_check(args: &[String], reg: &Reg, table: ProfileTable) -> i32 {
    let t0 = Instant::now();
    let prop = args.first().cloned().unwrap_or_default();
    let tier = arg_val(args, "--tier").unwrap_or_else(|| "quick".to_string());
    let seed: u64 = arg_val(args, "--seed").and_then(|s| s.parse().ok()).unwrap_or(1);
    println!("VERIF_SEED={seed} property={prop} tier={tier}");
    if tier == "thorough" {
        crate::set_scale(3);
    }
    let workers: usize = arg_val(args, "--workers")
        .and_then(|s| s.parse().ok())
        .unwrap_or_else(|| std::thread::available_parallelism().map(|n| n.get()).unwrap_or(4));
    let default_runs: u64 = if tier == "thorough" { 1_000_000 } else { 16_000 };
    let runs: u64 = arg_val(args, "--runs").and_then(|s| s.parse().ok()).unwrap_or(default_runs);
    let cap_s: u64 = arg_val(args, "--cap-seconds")
        .and_then(|s| s.parse().ok())
        .unwrap_or(if tier == "thorough" { 1500 } else { 240 });
    let evidence = arg_val(args, "--evidence").unwrap_or_else(|| format!("/verif/evidence/{prop}.json"));
    let replays = PathBuf::from(arg_val(args, "--replays").unwrap_or_else(|| "/verif/replays".to_string()));
    let known = load_known(&arg_val(args, "--known").unwrap_or_else(|| "/verif/known_findings.txt".to_string()));
    let ps = table(&prop);
    if ps.is_empty() {
        eprintln!("no profile for property {prop} in this binary");
        return 2;
    }
    let share_total: u64 = ps.iter().map(|(_, s)| *s).sum();
    let deadline = Instant::now() + Duration::from_secs(cap_s);
    let mut per_profile = vec![];
    let mut violation: Option<(String, PathBuf)> = None;
    let mut known_hits: Vec<String> = vec![];
    let mut harness: Vec<String> = vec![];
    let mut unreproduced: Vec<String> = vec![];
    let mut total_viol = 0;
    let mut probes_run = 0u64;
    for (p, share) in &ps {
        let n = (runs * share / share_total).max(1);
        let agg = sweep(p.as_ref(), reg, seed, 0, n, workers, false, Some(deadline), &known);
        for (r, e) in agg.harness.iter().take(3) {
            harness.push(format!("{} run {}: {}", p.name(), r, e));
        }
        if std::env::var("SIM_SHOW_COLLATERAL").is_ok() {
            for c in agg.collateral_samples.iter().take(6) {
                println!("collateral: {c}");
            }
        }
        for (k, v) in &agg.known_hits {
            known_hits.push(format!("{k} (seen {v}x)"));
        }
        if violation.is_none() {
            if let Some((run, f)) = agg.failing.first() {
                total_viol += agg.failing.len();
                // regenerate, minimise, persist, replay in a fresh process
                let o = run_one(p.as_ref(), reg, seed, *run);
                let min = minimise(p.as_ref(), reg, &o.plan, &f.oracle);
                let fin = reproduces(p.as_ref(), reg, &min, &f.oracle).unwrap_or_else(|| f.clone());
                let rec = crate::world::execute(&min, reg);
                let tail: Vec<Value> = rec
                    .ops
                    .iter()
                    .filter(|r| !r.setup)
                    .map(|r| json!({"idx": r.idx, "outcome": r.outcome, "outcome1": r.outcome1, "events": r.events}))
                    .collect();
                let _ = std::fs::create_dir_all(&replays);
                let path = replays.join(format!("{}-{}-{}.json", prop, seed, run));
                let body = json!({
                    "property": prop, "oracle": f.oracle, "seed": seed, "run": run, "profile": p.name(),
                    "finding": fin, "original_ops": o.plan.ops.len(), "original_faults": o.plan.faults.len(),
                    "plan": min, "log": tail,
                });
                std::fs::write(&path, serde_json::to_string_pretty(&body).unwrap()).expect("write replay");
                let exe = std::env::current_exe().expect("exe");
                let st = std::process::Command::new(exe).arg("replay").arg(&path).output().expect("spawn replay");
                if st.status.code() == Some(1) {
                    println!("violation: {} :: {}", fin.oracle, fin.detail);
                    println!("minimised {} ops / {} faults -> {} ops / {} faults", o.plan.ops.len(), o.plan.faults.len(), body["plan"]["ops"].as_array().map(|a| a.len()).unwrap_or(0), body["plan"]["faults"].as_array().map(|a| a.len()).unwrap_or(0));
                    violation = Some((fin.oracle.clone(), path));
                } else {
                    // Not reproducible from its own plan in a fresh process. Either the simulator leaks
                    // nondeterminism (harness error), or the code under test carries state from one
                    // delivery / contract instance / run to the next (a static, a cache): then the
                    // violation needs the history of its worker thread. Replay exactly that history:
                    // runs run%workers, +workers, ... up to the failing run, on one thread.
                    let hist = replays.join(format!("{}-{}-{}-history.json", prop, seed, run));
                    let hbody = json!({
                        "kind": "thread-history", "property": prop, "oracle": f.oracle, "seed": seed, "run": run,
                        "workers": workers, "profile": p.name(), "tier": tier, "finding": f,
                        "note": "the violation depends on state the code under test carries across deliveries / runs; replay re-executes the worker thread's whole history",
                    });
                    std::fs::write(&hist, serde_json::to_string_pretty(&hbody).unwrap()).expect("write replay");
                    let exe = std::env::current_exe().expect("exe");
                    let st = std::process::Command::new(exe).arg("replay").arg(&hist).output().expect("spawn replay");
                    if st.status.code() == Some(1) {
                        println!("violation: {} :: {}", f.oracle, f.detail);
                        println!("(not reproducible from the run's own plan: it depends on state carried across runs; the replay file holds the worker thread's history)");
                        violation = Some((f.oracle.clone(), hist));
                    } else {
                        // process-global state (shared by the worker threads) does not replay from one
                        // thread's history either. A fresh single-threaded process is deterministic:
                        // search it for the same oracle and hand out that history as the replay.
                        let search = replays.join(format!("{}-{}-search.json", prop, seed));
                        let sbody = json!({
                            "kind": "thread-history", "property": prop, "oracle": f.oracle, "seed": seed, "run": 0,
                            "workers": 1, "profile": p.name(), "tier": tier, "search_limit": n.min(30_000),
                        });
                        std::fs::write(&search, serde_json::to_string_pretty(&sbody).unwrap()).expect("write replay");
                        let exe = std::env::current_exe().expect("exe");
                        let st = std::process::Command::new(exe).arg("replay").arg(&search).output().expect("spawn replay");
                        let out = String::from_utf8_lossy(&st.stdout).to_string();
                        let found = out.lines().find_map(|l| l.strip_prefix("VIOLATION ").and_then(|r| r.split("replay=").nth(1)).map(|s| s.trim().to_string()));
                        let _ = std::fs::remove_file(&hist);
                        let _ = std::fs::remove_file(&search);
                        match (st.status.code(), found) {
                            (Some(1), Some(path)) => {
                                println!("violation: {} :: {}", f.oracle, f.detail);
                                println!("(depends on process-wide state carried across runs; replay = single-threaded history found by search)");
                                violation = Some((f.oracle.clone(), PathBuf::from(path)));
                            }
                            _ => unreproduced.push(format!(
                                "run {} failed ({}) but neither its minimised plan, nor its thread history, nor a single-threaded search reproduced it in a fresh process",
                                run, f.oracle
                            )),
                        }
                    }
                }
            }
        }
        // cold-start probes: fresh processes, single-threaded, short slices at scattered offsets
        if violation.is_none() {
            let exe = std::env::current_exe().expect("exe");
            let n_probes: u64 = if tier == "thorough" { 24 } else { 8 };
            for i in 0..n_probes {
                let first = 1_000_000 + i * 1000;
                let out = std::process::Command::new(&exe)
                    .args(["probe", &prop, "--seed", &seed.to_string(), "--first", &first.to_string(), "--runs", "40", "--profile", p.name(), "--tier", &tier])
                    .args(["--known", &arg_val(args, "--known").unwrap_or_else(|| "/verif/known_findings.txt".to_string())])
                    .output()
                    .expect("spawn probe");
                probes_run += 1;
                let text = String::from_utf8_lossy(&out.stdout).to_string();
                if out.status.code() == Some(2) {
                    harness.push(format!("cold-start probe: {}", text.trim()));
                }
                if out.status.code() == Some(1) {
                    if let Some(line) = text.lines().find(|l| l.starts_with("PROBE-FAIL")) {
                        let run: u64 = line.split("run=").nth(1).and_then(|x| x.split_whitespace().next()).and_then(|x| x.parse().ok()).unwrap_or(first);
                        let oracle = line.split("oracle=").nth(1).and_then(|x| x.split_whitespace().next()).unwrap_or("").to_string();
                        let _ = std::fs::create_dir_all(&replays);
                        let hist = replays.join(format!("{}-{}-{}-history.json", prop, seed, run));
                        let hbody = json!({
                            "kind": "thread-history", "property": prop, "oracle": oracle, "seed": seed, "run": run, "first": first,
                            "workers": 1, "profile": p.name(), "tier": tier, "found_by": "cold-start probe", "detail": line,
                            "note": "replay = runs first..=run on one thread of a fresh process",
                        });
                        std::fs::write(&hist, serde_json::to_string_pretty(&hbody).unwrap()).expect("write replay");
                        let st = std::process::Command::new(&exe).arg("replay").arg(&hist).output().expect("spawn replay");
                        if st.status.code() == Some(1) {
                            println!("violation: {} (cold-start probe at run {})", line, run);
                            violation = Some((oracle, hist));
                            total_viol += 1;
                        } else {
                            harness.push(format!("cold-start probe failed at run {run} but its history did not reproduce in a fresh process"));
                        }
                        break;
                    }
                }
            }
        }
        // A failure of the sweep that no fresh process reproduces is a determinism leak of the
        // simulator -- unless a cold-start probe (fresh process, one thread: deterministic by
        // construction) shows a violation of the same property: then the state that made the
        // sweep's failure unrepeatable is the code under test's (process-wide, set by whichever
        // contract ran first), and the probe's history is the replay.
        if !unreproduced.is_empty() {
            if violation.is_some() {
                for u in unreproduced.drain(..) {
                    println!("note: {u}; a cold-start probe reproduces a violation of this property in a fresh process, so the state carried across runs is the code under test's");
                }
            } else {
                harness.extend(unreproduced.drain(..).map(|u| format!("{u}: determinism leak")));
            }
        }
        per_profile.push((p.name().to_string(), agg));
    }
    let wall = t0.elapsed().as_secs_f64();
    // ---- evidence
    let mut evaluations = 0;
    let mut executions = 0;
    let mut txs = 0;
    let mut deliveries = 0;
    let mut sim_seconds = 0;
    let mut sim_blocks = 0;
    let mut nontrivial = std::collections::BTreeSet::new();
    let mut shapes = std::collections::BTreeSet::new();
    let mut cells = crate::monitor::Cells::default();
    let mut fired = std::collections::BTreeMap::new();
    let mut collateral = std::collections::BTreeMap::new();
    let mut samples = vec![];
    for (name, a) in &per_profile {
        evaluations += a.runs;
        executions += a.executions;
        txs += a.txs;
        deliveries += a.deliveries;
        sim_seconds += a.sim_seconds;
        sim_blocks += a.sim_blocks;
        nontrivial.extend(a.nontrivial_shapes.iter().map(|h| (name.clone(), *h)));
        shapes.extend(a.shapes.iter().map(|h| (name.clone(), *h)));
        cells.merge(&a.cells);
        for (k, v) in &a.fired {
            *fired.entry(k.clone()).or_insert(0u64) += v;
        }
        for (k, v) in &a.collateral {
            *collateral.entry(k.clone()).or_insert(0u64) += v;
        }
        samples.extend(a.samples.iter().take(2).cloned());
    }
    let level = "exploration";
    let ev = json!({
        "property_id": prop,
        "tier": tier,
        "seed": seed,
        "level": level,
        "coverage": {
            "evaluations": evaluations,
            "distinct_nontrivial": nontrivial.len(),
            "rule": "one evaluation = one seeded simulated run (world + history + fault plan drawn from VERIF_SEED/property/run index, executed on a cw-multi-test chain with every contract behind the fault link). distinct = distinct hash of the run's trace shape (per delivery: entry point, contract type, flavour, world, faults applied, handlers entered, helper builds, ok/err of every return and of the transaction); non-trivial = the run has >= 2 deliveries after setup or >= 1 fault that actually fired",
            "samples": samples,
            "distinct_shapes_all": shapes.len(),
            "executions": executions,
            "transactions": txs,
            "deliveries": deliveries,
            "simulated_seconds": sim_seconds,
            "simulated_blocks": sim_blocks,
            "runs_per_hour": if wall > 0.0 { (evaluations as f64 / wall * 3600.0) as u64 } else { 0 },
            "faults_fired": fired,
            "cells": cells.0,
            "collateral_other_properties": collateral,
            "known_findings_seen": known_hits,
            "cold_start_probes": {"processes": probes_run, "runs_each": 40, "what": "fresh single-threaded processes over scattered slices of runs, so that process-wide state of the code under test starts from scratch"},
            "workers": workers,
            "components": {
                "real": ["sylvia-derive macros (expanded from /repo at this build)", "sylvia run-time (ctx, types, builder, into_response, multitest)", "generated messages / dispatch / reply routing / builders / entry points / proxies", "cosmwasm-std, cw-utils, serde-json-wasm, serde-cw-value"],
                "stub": ["cw-multi-test chain stands in for wasmd (trusted as chain semantics)", "no wasm VM / gas metering: Reply.gas_used, events, msg_responses are injected at the link", "handler bodies are generated echo/script followers"]
            }
        },
        "assumptions": [
            "cw-multi-test 2.3.2 defines chain semantics (sub-message execution, reply delivery, rollback)",
            "programs are the committed corpus families listed in DESIGN.md; other program shapes are not covered",
            "a clean batch is evidence over the sampled runs, not a proof"
        ],
        "wall_s": wall,
        "violations": if violation.is_some() { total_viol as i64 } else { 0 },
    });
    if let Some(dir) = PathBuf::from(&evidence).parent() {
        let _ = std::fs::create_dir_all(dir);
    }
    std::fs::write(&evidence, serde_json::to_string_pretty(&ev).unwrap()).expect("write evidence");
    for k in &known_hits {
        println!("KNOWN-FINDING: property={prop} {k}");
    }
    // listed findings of this property that this run's sample did not happen to hit again
    for k in known.iter().filter(|k| k.property == prop) {
        let label = format!("oracle={} {}", k.oracle, k.what);
        if !known_hits.iter().any(|h| h.starts_with(&label)) {
            println!("KNOWN-FINDING: property={prop} {label} (not re-observed in this run's sample)");
        }
    }
    println!(
        "runs={} executions={} txs={} deliveries={} distinct_nontrivial={} wall={:.1}s",
        evaluations, executions, txs, deliveries, nontrivial.len(), wall
    );
    if !harness.is_empty() {
        for h in &harness {
            eprintln!("HARNESS-ERROR: {h}");
        }
        return 2;
    }
    if let Some((_, path)) = violation {
        println!("VIOLATION property={} replay={}", prop, path.display());
        return 1;
    }
    println!("OK property={prop}");
    0
}

#[allow(dead_code)]
fn unused(_: driver::RunOut) {}
