//! Seeded JSON values for the closed set of argument types (composed from the type *name*,
//! never through a sylvia-generated type), and seeded scripts.

use crate::rng::Rng;
use rt::spec::{ArgSpec, ContractSpec, HandlerSpec, Kind};
use serde_json::{json, Map, Value};
use sylvia::cw_std::Binary;

pub struct Pool<'a> {
    /// addresses that make sense as `Addr` / `String` recipients
    pub addrs: &'a [String],
}

pub fn b64(bytes: &[u8]) -> String {
    Binary::from(bytes.to_vec()).to_base64()
}

pub fn gen_coin(rng: &mut Rng) -> Value {
    let denom = *rng.pick(&["ucoin", "uatom", "x"]);
    let amount = match rng.below(4) {
        0 => 0u128,
        1 => 1,
        2 => rng.below(1000) as u128,
        _ => u128::MAX - rng.below(5) as u128,
    };
    json!({"denom": denom, "amount": amount.to_string()})
}

pub fn gen_value(rng: &mut Rng, ty: &str, pool: &Pool) -> Value {
    match ty {
        "u8" => json!(*rng.pick(&[0u64, 1, 7, 255])),
        "u32" => json!(match rng.below(4) {
            0 => 0,
            1 => u32::MAX as u64,
            _ => rng.below(100_000),
        }),
        "u64" => json!(match rng.below(4) {
            0 => 0,
            1 => u64::MAX,
            _ => rng.next() >> rng.below(60),
        }),
        "i32" => json!(match rng.below(4) {
            0 => i32::MIN as i64,
            1 => -1,
            2 => i32::MAX as i64,
            _ => rng.below(1000) as i64 - 500,
        }),
        "bool" => json!(rng.chance(1, 2)),
        "String" => json!(rng.word()),
        "Option<String>" => {
            if rng.chance(1, 3) {
                Value::Null
            } else {
                json!(rng.word())
            }
        }
        "Option<u32>" => {
            if rng.chance(1, 3) {
                Value::Null
            } else {
                json!(rng.below(1000))
            }
        }
        "Vec<u32>" => {
            let n = rng.below(4);
            Value::Array((0..n).map(|_| json!(rng.below(50))).collect())
        }
        "Binary" => {
            let n = rng.below(6) as usize;
            json!(b64(&rng.bytes(n)))
        }
        "Addr" => {
            if pool.addrs.is_empty() || rng.chance(1, 5) {
                json!(format!("someone{}", rng.below(9)))
            } else {
                json!(rng.pick(pool.addrs).clone())
            }
        }
        "Coin" => gen_coin(rng),
        "Vec<Coin>" => {
            let n = rng.below(3);
            Value::Array((0..n).map(|_| gen_coin(rng)).collect())
        }
        "Uint128" => json!(match rng.below(3) {
            0 => "0".to_string(),
            1 => u128::MAX.to_string(),
            _ => (rng.next() as u128 * 3).to_string(),
        }),
        // 128 bit integers travel as bare JSON numbers (the values drawn here stay within what
        // serde_json's own number type holds)
        "u128" => json!(match rng.below(3) {
            0 => 0u64,
            1 => u64::MAX,
            _ => rng.next() >> rng.below(60),
        }),
        "i128" => json!(match rng.below(3) {
            0 => i64::MIN,
            1 => -1,
            _ => rng.next() as i64 >> rng.below(60),
        }),
        "i64" => json!(match rng.below(4) {
            0 => i64::MIN,
            1 => i64::MAX,
            _ => rng.next() as i64 >> rng.below(60),
        }),
        "Vec<String>" => {
            let n = rng.below(4);
            Value::Array((0..n).map(|_| json!(rng.word())).collect())
        }
        "Option<Pt>" => {
            if rng.chance(1, 3) {
                Value::Null
            } else {
                gen_value(rng, "Pt", pool)
            }
        }
        "Vec<Pt>" => {
            let n = rng.below(3);
            Value::Array((0..n).map(|_| gen_value(rng, "Pt", pool)).collect())
        }
        "Option<Binary>" => {
            if rng.chance(1, 3) {
                Value::Null
            } else {
                gen_value(rng, "Binary", pool)
            }
        }
        "Option<Vec<Coin>>" => {
            if rng.chance(1, 3) {
                Value::Null
            } else {
                gen_value(rng, "Vec<Coin>", pool)
            }
        }
        "Pt" => json!({"x": rng.below(200) as i64 - 100, "y": rng.word()}),
        "Kd" => {
            if rng.chance(1, 2) {
                json!({"a": {}})
            } else {
                json!({"b": {"n": rng.below(99)}})
            }
        }
        "Tree" => {
            // mostly bushes; now and then a chain far deeper than any ordinary message (but within
            // what a JSON parser with the usual 128 level limit reads)
            fn bush(rng: &mut Rng, depth: u32) -> Value {
                let n = if depth >= 3 { 0 } else { rng.below(3) };
                json!({"v": rng.below(100), "kids": (0..n).map(|_| bush(rng, depth + 1)).collect::<Vec<_>>()})
            }
            if rng.chance(1, 4) {
                let len = rng.range(10, 55);
                let mut t = json!({"v": 0, "kids": []});
                for i in 0..len {
                    t = json!({"v": i + 1, "kids": [t]});
                }
                t
            } else {
                bush(rng, 0)
            }
        }
        "Boxed<u32>" => json!({"v": rng.below(100_000)}),
        "Nil" => json!({}),
        // (often exactly one element, and that one empty)
        "Vec<Vec<u32>>" => match rng.below(4) {
            0 => json!([[]]),
            1 => json!([]),
            2 => json!([[], []]),
            _ => json!([[rng.below(9)], []]),
        },
        "Script" => json!([]),
        "Pay" => json!({"nonce": rng.below(1 << 40), "script": []}),
        other => json!(format!("<<no generator for {other}>>")),
    }
}

/// a JSON value that is *not* of the given type (for wrong-typed data / retyped fields)
pub fn gen_wrong(rng: &mut Rng, ty: &str) -> Value {
    match ty {
        "String" | "Option<String>" | "Binary" | "Addr" | "Uint128" => json!(rng.below(1000)),
        "bool" => json!("yes"),
        "Pt" => json!({"x": "not-a-number", "y": 3}),
        "Kd" => json!({"c": {}}),
        "Vec<u32>" | "Vec<Coin>" => json!({"not": "an array"}),
        "Coin" => json!({"denom": 5}),
        _ => json!("not-a-number"),
    }
}

pub fn gen_args(
    rng: &mut Rng,
    args: &[ArgSpec],
    pool: &Pool,
    script: Option<Value>,
) -> Map<String, Value> {
    let mut m = Map::new();
    for a in args {
        let v = if a.ty == "Script" {
            script.clone().unwrap_or_else(|| json!([]))
        } else if a.name == "fail" && a.ty == "Option<u32>" {
            // echo queries fail on request; keep it rare
            if rng.chance(1, 6) {
                json!(rng.below(1000))
            } else {
                Value::Null
            }
        } else {
            gen_value(rng, a.ty, pool)
        };
        m.insert(a.name.to_string(), v);
    }
    m
}

/// the document the property prescribes for (handler, args): `{"<name>":{args}}` for
/// exec / query / sudo, the flat object for instantiate / migrate
pub fn doc_for(h: &HandlerSpec, args: &Map<String, Value>) -> Value {
    match h.kind {
        Kind::Instantiate | Kind::Migrate => Value::Object(args.clone()),
        _ => {
            let mut m = Map::new();
            m.insert(h.wire.to_string(), Value::Object(args.clone()));
            Value::Object(m)
        }
    }
}

/// The document for (handler, args) with some members left out: an `Option` argument that is
/// `None` may simply be omitted, and so may any argument with a forwarded serde default -- in
/// which case the handler has to see that default (`args` is updated to what must arrive).
pub fn doc_omitting(h: &HandlerSpec, args: &mut Map<String, Value>, rng: &mut Rng) -> Value {
    let mut body = args.clone();
    for a in h.args {
        if a.ty == "Script" {
            continue;
        }
        let is_null = args.get(a.name).map(|v| v.is_null()).unwrap_or(false);
        if a.default.is_empty() {
            if is_null && rng.chance(1, 2) {
                body.remove(a.name);
            }
        } else if rng.chance(1, 3) {
            body.remove(a.name);
            args.insert(a.name.to_string(), serde_json::from_str(a.default).unwrap_or(Value::Null));
        }
    }
    // (a member no parameter is named after is ignored by every message)
    if rng.chance(1, 12) {
        body.insert("zz_unknown".to_string(), json!(rng.below(9)));
    }
    doc_for(h, &body)
}

pub fn handler<'a>(spec: &'a ContractSpec, kind: Kind, part: &str, f: &str) -> Option<&'a HandlerSpec> {
    spec.handlers
        .iter()
        .find(|h| h.kind == kind && h.part == part && h.fn_name == f)
}
