//! Worlds of dispatch-family contracts: C02 (spec-built traffic with nested calls, failures,
//! funds, block jumps), C03 (wire faults), C04 (mis-delivery).

use super::{std_accounts, Profile, WorldPlan};
use crate::monitor::dispatch::{self, Which};
use crate::monitor::{wire, Cells, Finding};
use crate::plan::{Code, Doc, Intent, Op, Plan};
use crate::reg::Reg;
use crate::rng::Rng;
use crate::scripts::ScriptGen;
use crate::values::{doc_for, doc_omitting, gen_args, gen_value, gen_wrong, Pool};
use crate::world::{account_addr, ContractInfo, RunRecord};
use rt::spec::{Entry, HandlerSpec, Kind};
use serde_json::{json, Map, Value};
use sylvia::cw_std::Coin;

pub fn all_ops(plan: &Plan) -> Vec<&Op> {
    plan.setup.iter().chain(plan.ops.iter()).collect()
}

/// pick `n` programs, store each once, instantiate each once
pub fn simple_world(rng: &mut Rng, reg: &Reg, pool: &[&Entry], n: usize, custom_chain: bool) -> WorldPlan {
    let mut codes = vec![];
    for _ in 0..n {
        let e = *rng.pick(pool);
        let flavour = if e.spec.entry_points { rng.below(2) as u8 } else { 0 };
        codes.push(Code { cid: e.spec.cid.to_string(), flavour });
    }
    let accounts = std_accounts(rng);
    let addrs: Vec<String> = accounts.iter().map(|(n, _)| account_addr(n).to_string()).collect();
    let pool_a = Pool { addrs: &addrs };
    let mut setup = vec![];
    for (i, c) in codes.iter().enumerate() {
        let e = reg.get(&c.cid).unwrap();
        let (msg, intent) = if e.spec.overrides.contains(&Kind::Instantiate) {
            (Doc::json(&json!({"tag": "setup"})), None)
        } else {
            let h = e.spec.of_kind(Kind::Instantiate).next().unwrap();
            let args = gen_args(rng, h.args, &pool_a, None);
            (
                Doc::json(&Value::Object(args.clone())),
                Some(Intent { hid: h.id(), args: Value::Object(args), cid: String::new() }),
            )
        };
        setup.push(Op::Instantiate {
            code: i,
            sender: addrs[0].clone(),
            msg,
            label: format!("c{i}"),
            admin: Some(addrs[3].clone()),
            funds: if rng.chance(1, 3) { vec![Coin::new(rng.range(1, 500) as u128, "ucoin")] } else { vec![] },
            salt: None,
            intent,
        });
    }
    WorldPlan { custom_chain, twin: false, accounts, codes, codes1: vec![], setup }
}

pub struct TrafficGen<'a> {
    pub sg: ScriptGen<'a>,
    pub codes: &'a [Code],
    /// allow migrations to other programs (the generator then tracks who lives where, assuming
    /// admin-sent, failure-free migrations succeed; intents carry the program they were built for,
    /// so a wrong assumption only loses the explicit intent of later operations)
    pub cross_migrate: bool,
    pub model: Vec<(String, String)>,
}

impl<'a> TrafficGen<'a> {
    fn handlers(&self, c: &ContractInfo, kind: Kind) -> Vec<&'a HandlerSpec> {
        let Some(e) = self.sg.reg.get(&c.cid) else { return vec![] };
        if e.spec.overrides.contains(&kind) {
            return vec![];
        }
        e.spec.of_kind(kind).filter(|h| !self.sg.regular_only || h.regular).collect()
    }

    /// A long history against one part of one contract: `n` plain messages of one kind, all for
    /// handlers of the same part (code under test that keeps state across calls -- caches,
    /// counters, tables that reorganise themselves -- only shows it late).
    pub fn hammer(&mut self, rng: &mut Rng, n: u64) -> Vec<Op> {
        let c = rng.pick(self.sg.contracts).clone();
        let kind = *rng.pick(&[Kind::Exec, Kind::Exec, Kind::Query, Kind::Sudo]);
        let hs = self.handlers(&c, kind);
        if hs.is_empty() {
            return vec![];
        }
        let part = rng.pick(&hs).part;
        let hs: Vec<&HandlerSpec> = hs.into_iter().filter(|h| h.part == part).collect();
        let keep = self.sg.fail_pm;
        self.sg.fail_pm = 10;
        let accounts = self.sg.accounts;
        let mut ops = vec![];
        for _ in 0..n {
            let h = *rng.pick(&hs);
            let mut args = self.sg.args_for(rng, &c.cid, h, 99);
            let doc = doc_omitting(h, &mut args, rng);
            let intent = Some(Intent { hid: h.id(), args: Value::Object(args), cid: c.cid.clone() });
            ops.push(match kind {
                Kind::Exec => Op::Exec { target: c.addr.clone(), sender: rng.pick(accounts).clone(), msg: Doc::json(&doc), funds: vec![], intent },
                Kind::Query => Op::Query { target: c.addr.clone(), msg: Doc::json(&doc), intent },
                _ => Op::Sudo { target: c.addr.clone(), msg: Doc::json(&doc), intent },
            });
        }
        self.sg.fail_pm = keep;
        ops
    }

    /// one spec-built operation against a random contract
    pub fn op(&mut self, rng: &mut Rng) -> Option<Op> {
        let mut c = rng.pick(self.sg.contracts).clone();
        if let Some((_, cid)) = self.model.iter().find(|(a, _)| *a == c.addr) {
            c.cid = cid.clone();
        }
        let accounts = self.sg.accounts;
        match rng.below(20) {
            0..=8 => {
                let hs = self.handlers(&c, Kind::Exec);
                if hs.is_empty() {
                    return None;
                }
                let h = *rng.pick(&hs);
                let mut args = self.sg.args_for(rng, &c.cid, h, 0);
                let doc = doc_omitting(h, &mut args, rng);
                let funds = match rng.below(9) {
                    0 => vec![Coin::new(rng.range(1, 40) as u128, "ucoin")],
                    1 => vec![Coin::new(rng.range(1, 9) as u128, "uatom"), Coin::new(3u128, "ucoin")],
                    // in the sender's order, not the alphabet's; zero amounts; a denom twice
                    2 => vec![Coin::new(3u128, "ucoin"), Coin::new(rng.range(1, 9) as u128, "uatom")],
                    3 => vec![Coin::new(0u128, "ucoin"), Coin::new(rng.range(0, 2) as u128, "uatom")],
                    4 => vec![Coin::new(1u128, "ucoin"), Coin::new(1u128, "uatom"), Coin::new(2u128, "ucoin")],
                    _ => vec![],
                };
                Some(Op::Exec {
                    target: c.addr.clone(),
                    sender: rng.pick(accounts).clone(),
                    msg: Doc::json(&doc),
                    funds,
                    intent: Some(Intent { hid: h.id(), args: Value::Object(args), cid: c.cid.clone() }),
                })
            }
            9..=12 => {
                let hs = self.handlers(&c, Kind::Query);
                if hs.is_empty() {
                    return None;
                }
                let h = *rng.pick(&hs);
                let mut args = self.sg.args_for(rng, &c.cid, h, 0);
                let doc = doc_omitting(h, &mut args, rng);
                Some(Op::Query {
                    target: c.addr.clone(),
                    msg: Doc::json(&doc),
                    intent: Some(Intent { hid: h.id(), args: Value::Object(args), cid: c.cid.clone() }),
                })
            }
            13..=15 => {
                let hs = self.handlers(&c, Kind::Sudo);
                if hs.is_empty() {
                    return None;
                }
                let h = *rng.pick(&hs);
                let mut args = self.sg.args_for(rng, &c.cid, h, 0);
                let doc = doc_omitting(h, &mut args, rng);
                Some(Op::Sudo {
                    target: c.addr.clone(),
                    msg: Doc::json(&doc),
                    intent: Some(Intent { hid: h.id(), args: Value::Object(args), cid: c.cid.clone() }),
                })
            }
            16 => {
                // code replacement: to a stored code of the same program, or (cross_migrate) of another
                let candidates: Vec<usize> = self
                    .codes
                    .iter()
                    .enumerate()
                    .filter(|(_, k)| self.cross_migrate || k.cid == c.cid)
                    .filter(|(_, k)| self.sg.reg.get(&k.cid).map(|e| e.spec.of_kind(Kind::Migrate).next().is_some() && !e.spec.overrides.contains(&Kind::Migrate)).unwrap_or(false))
                    .map(|(i, _)| i)
                    .collect();
                if candidates.is_empty() {
                    return None;
                }
                let code = *rng.pick(&candidates);
                let new_cid = self.codes[code].cid.clone();
                let ne = self.sg.reg.get(&new_cid)?;
                let h = ne.spec.of_kind(Kind::Migrate).next()?;
                let cross = new_cid != c.cid;
                let admin_sender = cross || rng.chance(3, 4);
                let mut args = if cross {
                    // keep the generator's model of who lives where exact: no scripted failure
                    let keep = self.sg.fail_pm;
                    self.sg.fail_pm = 0;
                    let a = self.sg.args_for(rng, &new_cid, h, 98);
                    self.sg.fail_pm = keep;
                    a
                } else {
                    self.sg.args_for(rng, &new_cid, h, 0)
                };
                let doc = doc_omitting(h, &mut args, rng);
                let sender = if admin_sender { accounts[3].clone() } else { rng.pick(accounts).clone() };
                if cross {
                    self.model.retain(|(a, _)| *a != c.addr);
                    self.model.push((c.addr.clone(), new_cid.clone()));
                }
                Some(Op::Migrate {
                    target: c.addr.clone(),
                    sender,
                    code,
                    msg: Doc::json(&doc),
                    intent: Some(Intent { hid: h.id(), args: Value::Object(args), cid: new_cid }),
                })
            }
            17 => {
                let code = rng.below(self.codes.len() as u64) as usize;
                let e = self.sg.reg.get(&self.codes[code].cid)?;
                if e.spec.overrides.contains(&Kind::Instantiate) {
                    return None;
                }
                let h = e.spec.of_kind(Kind::Instantiate).next()?;
                let mut args = self.sg.args_for(rng, e.spec.cid, h, 0);
                let doc = doc_omitting(h, &mut args, rng);
                Some(Op::Instantiate {
                    code,
                    sender: rng.pick(accounts).clone(),
                    msg: Doc::json(&doc),
                    label: format!("dyn{}", self.sg.nonce()),
                    admin: if rng.chance(1, 2) { Some(accounts[3].clone()) } else { None },
                    funds: vec![],
                    salt: if rng.chance(1, 4) { Some(Doc(rng.bytes(4))) } else { None },
                    intent: Some(Intent { hid: h.id(), args: Value::Object(args), cid: String::new() }),
                })
            }
            _ => Some(Op::Block { dh: rng.range(1, 1000), dt: rng.range(1, 1_000_000) }),
        }
    }
}

// ------------------------------------------------------------------------------------ C02

pub struct Dispatch;

impl Profile for Dispatch {
    fn property(&self) -> &'static str {
        "C02"
    }
    fn name(&self) -> &'static str {
        "f1-dispatch"
    }
    fn gen_world(&self, rng: &mut Rng, reg: &Reg) -> WorldPlan {
        let pool: Vec<&Entry> = reg.family("f1").into_iter().filter(|e| e.spec.has_tag("regular")).collect();
        let n = rng.range(2, 4 + crate::extra_contracts()) as usize;
        simple_world(rng, reg, &pool, n, false)
    }
    fn gen_ops(&self, rng: &mut Rng, reg: &Reg, wp: &WorldPlan, base: &RunRecord) -> Vec<Op> {
        if base.contracts.is_empty() {
            return vec![];
        }
        let mut sg = ScriptGen::new(reg, &base.contracts, &base.accounts);
        // swarm: vary the knobs per run
        sg.fail_pm = *rng.pick(&[0, 100, 300]);
        sg.funds_pm = *rng.pick(&[0, 200, 600]);
        sg.typed_pct = *rng.pick(&[0, 50, 100]);
        sg.max_depth = rng.range(0, 3 + crate::extra_depth()) as u32;
        let mut tg = TrafficGen { sg, codes: &wp.codes, cross_migrate: rng.chance(1, 2), model: vec![] };
        if rng.chance(1, crate::LONG_RUN_ONE_IN) {
            let n = rng.range(258, 330);
            return tg.hammer(rng, n);
        }
        let n = rng.range(3, 14 * crate::scale());
        (0..n).filter_map(|_| tg.op(rng)).collect()
    }
    fn check(&self, plan: &Plan, rec: &RunRecord, reg: &Reg, cells: &mut Cells) -> Vec<Finding> {
        let mut out = dispatch::check(rec, &all_ops(plan), reg, &Which { c02: true, c04: true }, cells);
        out.extend(wire::check(rec, reg, cells));
        out
    }
}

// ------------------------------------------------------------------------------------ C03

pub struct WireFaults;

/// 0..3 wire faults on a well-formed document
pub fn mutate_doc(rng: &mut Rng, doc: &Value, other_names: &[String], cells: &mut Vec<&'static str>) -> Vec<u8> {
    let mut v = doc.clone();
    let mut text: Option<Vec<u8>> = None;
    let n = rng.below(4);
    for _ in 0..n {
        if text.is_some() {
            break;
        }
        let Some(o) = v.as_object_mut() else { break };
        let key = o.keys().next().cloned();
        match rng.below(16) {
            15 => {
                // an unknown name in front of a long body with text outside ASCII: the error has
                // to echo / list whatever it does without falling over
                if let Some(k) = key {
                    let mut body = o.remove(&k).unwrap();
                    let ch = *rng.pick(&["\u{e9}", "\u{20ac}", "\u{1F600}", "\u{17c}"]);
                    let n = rng.range(20, 90) as usize;
                    let pad: String = format!("{}{}", "x".repeat(rng.below(4) as usize), ch.repeat(n));
                    if let Some(b) = body.as_object_mut() {
                        b.insert(if rng.chance(1, 2) { "memo".to_string() } else { pad.clone() }, json!(pad));
                    }
                    let name = if rng.chance(1, 3) { format!("{}_{}", k, ch) } else { format!("{}x", k) };
                    o.insert(name, body);
                    cells.push("wire_long_unknown");
                }
            }
            14 => {
                // names the generator reserves for itself must not be messages
                v = rng.pick(&[json!({"__phantom": null}), json!({"_phantom": null}), json!({"__phantom": {}}), json!({"__phantom": []}), json!({"_Phantom": null})]).clone();
                cells.push("wire_phantom");
            }
            0 => {
                // unknown top-level name
                if let Some(k) = key {
                    let body = o.remove(&k).unwrap();
                    o.insert(format!("{}{}", k, *rng.pick(&["x", "_", "2", "_v2"])), body);
                    cells.push("wire_rename_unknown");
                }
            }
            1 => {
                // a name that exists elsewhere (another kind / another contract's part)
                if let (Some(k), false) = (key, other_names.is_empty()) {
                    let body = o.remove(&k).unwrap();
                    o.insert(rng.pick(other_names).clone(), body);
                    cells.push("wire_rename_other");
                }
            }
            2 => {
                o.clear();
                cells.push("wire_zero_keys");
            }
            3 => {
                // splice of two messages
                if !other_names.is_empty() {
                    o.insert(rng.pick(other_names).clone(), json!({}));
                    cells.push("wire_two_keys");
                }
            }
            4 => {
                v = match rng.below(8) {
                    0 => json!([v]),
                    1 => json!("go"),
                    2 => json!(7),
                    3 => Value::Null,
                    // the bare name of a message (serde's spelling of a unit variant): of this very
                    // document, or of any message around
                    4 | 5 => json!(key.clone().unwrap_or_default()),
                    6 if !other_names.is_empty() => json!(rng.pick(other_names).clone()),
                    _ => json!(true),
                };
                cells.push("wire_not_object");
            }
            5 => {
                // field removed
                if let Some(k) = key {
                    if let Some(b) = o.get_mut(&k).and_then(|b| b.as_object_mut()) {
                        if let Some(f) = b.keys().next().cloned() {
                            b.remove(&f);
                            cells.push("wire_field_removed");
                        }
                    }
                }
            }
            6 => {
                if let Some(k) = key {
                    if let Some(b) = o.get_mut(&k).and_then(|b| b.as_object_mut()) {
                        b.insert(format!("extra{}", rng.below(3)), json!(rng.below(9)));
                        cells.push("wire_field_added");
                    }
                }
            }
            7 => {
                if let Some(k) = key {
                    if let Some(b) = o.get_mut(&k).and_then(|b| b.as_object_mut()) {
                        // numbers spelled as decimal strings, first of all
                        let nums: Vec<String> = b.iter().filter(|(_, v)| v.is_u64()).map(|(k, _)| k.clone()).collect();
                        if !nums.is_empty() && rng.chance(1, 2) {
                            let f = rng.pick(&nums).clone();
                            let t = b[&f].to_string();
                            b.insert(f, json!(t));
                            cells.push("wire_number_as_string");
                        } else if let Some(f) = b.keys().next().cloned() {
                            b.insert(f, gen_wrong(rng, *rng.clone().pick(&["String", "u32", "bool", "Pt", "Vec<u32>"])));
                            cells.push("wire_field_retyped");
                        }
                    }
                }
            }
            8 => {
                // duplicated top-level key (text level)
                if let Some(k) = key {
                    let body = serde_json::to_string(&o[&k]).unwrap();
                    text = Some(format!("{{\"{k}\":{body},\"{k}\":{body}}}").into_bytes());
                    cells.push("wire_dup_key");
                }
            }
            9 => {
                let mut b = serde_json::to_vec(&v).unwrap();
                if b.len() > 1 {
                    b.truncate(rng.range(0, b.len() as u64 - 1) as usize);
                    text = Some(b);
                    cells.push("wire_truncated");
                }
            }
            10 => {
                let mut b = serde_json::to_vec(&v).unwrap();
                if !b.is_empty() {
                    let i = rng.below(b.len() as u64) as usize;
                    b[i] ^= 1 << rng.below(8);
                    text = Some(b);
                    cells.push("wire_bit_flip");
                }
            }
            11 => {
                // body is not an object
                if let Some(k) = key {
                    // (one of them: the argument values as a sequence, in declaration order as far
                    // as the document tells)
                    let seq = o.get(&k).and_then(|b| b.as_object()).map(|b| Value::Array(b.values().cloned().collect())).unwrap_or(json!([]));
                    o.insert(k, rng.pick(&[json!(null), json!([]), json!("x"), json!(3), seq.clone(), seq]).clone());
                    cells.push("wire_body_not_object");
                }
            }
            12 => {
                // duplicated field inside the body (text level)
                if let Some(k) = key {
                    if let Some(b) = o.get(&k).and_then(|b| b.as_object()) {
                        if let Some((f, fv)) = b.iter().next() {
                            let mut parts: Vec<String> = b.iter().map(|(a, x)| format!("\"{}\":{}", a, x)).collect();
                            parts.push(format!("\"{}\":{}", f, fv));
                            text = Some(format!("{{\"{}\":{{{}}}}}", k, parts.join(",")).into_bytes());
                            cells.push("wire_dup_field");
                        }
                    }
                }
            }
            _ => {
                // leading / trailing garbage
                let b = serde_json::to_vec(&v).unwrap();
                let mut t = b.clone();
                if rng.chance(1, 2) {
                    t.extend_from_slice(b" {}");
                } else {
                    t.splice(0..0, b" \n".iter().cloned());
                }
                text = Some(t);
                cells.push("wire_padding");
            }
        }
    }
    text.unwrap_or_else(|| serde_json::to_vec(&v).unwrap())
}

/// the same operation with the document's name replaced by the handler's alias (no intent:
/// the parts decide what such a document means)
fn alias_form(op: &Op, reg: &Reg, contracts: &[ContractInfo]) -> Option<Op> {
    let (target, msg, intent) = match op {
        Op::Exec { target, msg, intent, .. } | Op::Query { target, msg, intent } | Op::Sudo { target, msg, intent } => (target, msg, intent.as_ref()?),
        _ => return None,
    };
    let cid = contracts.iter().find(|c| c.addr == *target).map(|c| c.cid.as_str())?;
    let h = reg.get(cid)?.spec.handler(&intent.hid)?;
    if h.alias.is_empty() {
        return None;
    }
    let v: Value = serde_json::from_slice(&msg.0).ok()?;
    let body = v.as_object()?.get(h.wire)?.clone();
    let doc = Doc::json(&json!({ h.alias: body }));
    Some(match op {
        Op::Exec { target, sender, funds, .. } => Op::Exec { target: target.clone(), sender: sender.clone(), msg: doc, funds: funds.clone(), intent: None },
        Op::Query { target, .. } => Op::Query { target: target.clone(), msg: doc, intent: None },
        Op::Sudo { target, .. } => Op::Sudo { target: target.clone(), msg: doc, intent: None },
        _ => return None,
    })
}

fn names_elsewhere(reg: &Reg, e: &Entry, kind: Kind) -> Vec<String> {
    // second names given by forwarded aliases count as names around
    let aliases: Vec<String> = e.spec.handlers.iter().filter(|h| !h.alias.is_empty()).flat_map(|h| vec![h.alias.to_string(); 4]).collect();
    let mut v: Vec<String> = e
        .spec
        .handlers
        .iter()
        .filter(|h| h.kind != kind && !h.wire.is_empty())
        .map(|h| h.wire.to_string())
        .collect();
    for o in reg.entries.iter().take(8) {
        v.extend(o.spec.of_kind(kind).map(|h| h.wire.to_string()));
    }
    v.extend((e.name_lists)(kind.entry()).into_iter().flat_map(|(_, l)| l));
    v.push("instantiate".into());
    v.push("migrate".into());
    v.extend(aliases);
    v
}

impl Profile for WireFaults {
    fn property(&self) -> &'static str {
        "C03"
    }
    fn name(&self) -> &'static str {
        "f1-wirefaults"
    }
    fn gen_world(&self, rng: &mut Rng, reg: &Reg) -> WorldPlan {
        let pool: Vec<&Entry> = reg.family("f1");
        let n = rng.range(1, 3 + crate::extra_contracts()) as usize;
        simple_world(rng, reg, &pool, n, false)
    }
    fn gen_ops(&self, rng: &mut Rng, reg: &Reg, wp: &WorldPlan, base: &RunRecord) -> Vec<Op> {
        if base.contracts.is_empty() {
            return vec![];
        }
        let mut sg = ScriptGen::new(reg, &base.contracts, &base.accounts);
        sg.regular_only = false;
        sg.max_depth = 1;
        sg.typed_pct = 0;
        let mut tg = TrafficGen { sg, codes: &wp.codes, cross_migrate: false, model: vec![] };
        if rng.chance(1, crate::LONG_RUN_ONE_IN) {
            let n = rng.range(258, 330);
            return tg.hammer(rng, n);
        }
        let n = rng.range(3, 10 * crate::scale());
        let mut ops = vec![];
        for _ in 0..n {
            let Some(op) = tg.op(rng) else { continue };
            // a handler with a forwarded serde alias may be addressed by that second name
            let op = match alias_form(&op, reg, &base.contracts) {
                Some(aliased) if rng.chance(1, 2) => {
                    crate::driver::note_op_fault("wire_alias_name");
                    aliased
                }
                _ => op,
            };
            if rng.chance(1, 3) {
                ops.push(op);
                continue;
            }
            // damage the document in flight
            let mut tags = vec![];
            let op = match op {
                Op::Exec { target, sender, msg, funds, .. } => {
                    let e = reg.get(base.contracts.iter().find(|c| c.addr == target).map(|c| c.cid.as_str()).unwrap_or("")).unwrap();
                    let v: Value = serde_json::from_slice(&msg.0).unwrap();
                    let b = mutate_doc(rng, &v, &names_elsewhere(reg, e, Kind::Exec), &mut tags);
                    Op::Exec { target, sender, msg: Doc(b), funds, intent: None }
                }
                Op::Query { target, msg, .. } => {
                    let e = reg.get(base.contracts.iter().find(|c| c.addr == target).map(|c| c.cid.as_str()).unwrap_or("")).unwrap();
                    let v: Value = serde_json::from_slice(&msg.0).unwrap();
                    let b = mutate_doc(rng, &v, &names_elsewhere(reg, e, Kind::Query), &mut tags);
                    Op::Query { target, msg: Doc(b), intent: None }
                }
                Op::Sudo { target, msg, .. } => {
                    let e = reg.get(base.contracts.iter().find(|c| c.addr == target).map(|c| c.cid.as_str()).unwrap_or("")).unwrap();
                    let v: Value = serde_json::from_slice(&msg.0).unwrap();
                    let b = mutate_doc(rng, &v, &names_elsewhere(reg, e, Kind::Sudo), &mut tags);
                    Op::Sudo { target, msg: Doc(b), intent: None }
                }
                other => other,
            };
            for t in tags {
                crate::driver::note_op_fault(t);
            }
            ops.push(op);
        }
        ops
    }
    fn check(&self, plan: &Plan, rec: &RunRecord, reg: &Reg, cells: &mut Cells) -> Vec<Finding> {
        let mut out = wire::check(rec, reg, cells);
        out.extend(dispatch::check(rec, &all_ops(plan), reg, &Which { c02: true, c04: true }, cells));
        out
    }
}

// ------------------------------------------------------------------------------------ C04

pub struct Misdeliver {
    /// worlds of the custom-chain family (interfaces with their own message / query types)
    pub custom: bool,
}

/// Let the first contract of the world instantiate another one while it is being instantiated
/// itself (so that a contract exists whose creator is a contract).
fn spawn_child_in_setup(rng: &mut Rng, reg: &Reg, wp: &mut WorldPlan) {
    let Some(c0) = wp.codes.first() else { return };
    let Some(e0) = reg.get(&c0.cid) else { return };
    if e0.spec.overrides.contains(&Kind::Instantiate) || e0.spec.overrides.contains(&Kind::Exec) || e0.spec.of_kind(Kind::Exec).all(|h| h.fn_name != "go") {
        return;
    }
    let Some(h0) = e0.spec.of_kind(Kind::Instantiate).next() else { return };
    if h0.args.iter().all(|a| a.ty != "Script") {
        return;
    }
    let k = rng.below(wp.codes.len() as u64) as usize;
    let Some(ek) = reg.get(&wp.codes[k].cid) else { return };
    if ek.spec.overrides.contains(&Kind::Instantiate) {
        return;
    }
    let Some(hk) = ek.spec.of_kind(Kind::Instantiate).next() else { return };
    let accounts: Vec<String> = wp.accounts.iter().map(|(n, _)| account_addr(n).to_string()).collect();
    let child_args = gen_args(rng, hk.args, &Pool { addrs: &accounts }, None);
    // (code ids are handed out in storing order, from 1)
    let script = json!([{"send": {"msg": {"inst": {"code_id": k + 1, "ty": "", "args": sylvia::cw_std::Binary::from(serde_json::to_vec(&Value::Object(child_args)).unwrap()).to_base64(), "label": "child", "admin": null, "funds": null, "salt": null}}, "reply": "none", "gas_limit": null}}]);
    if let Some(Op::Instantiate { msg, intent, .. }) = wp.setup.first_mut() {
        if let Ok(Value::Object(mut o)) = serde_json::from_slice::<Value>(&msg.0) {
            let name = h0.args.iter().find(|a| a.ty == "Script").map(|a| a.name).unwrap_or("script");
            o.insert(name.to_string(), script);
            *msg = Doc::json(&Value::Object(o.clone()));
            if let Some(i) = intent {
                i.args = Value::Object(o);
            }
        }
    }
}

fn doc_of_kind(rng: &mut Rng, tg: &mut TrafficGen, c: &ContractInfo, k: Kind) -> Option<(Value, String)> {
    let e = tg.sg.reg.get(&c.cid)?;
    match k {
        Kind::Reply => {
            // a Reply-shaped document
            let v = json!({"id": rng.below(4), "payload": "", "gas_used": 0, "result": {"ok": {"events": [], "data": null, "msg_responses": []}}});
            Some((v, "reply-shaped".into()))
        }
        _ => {
            let hs: Vec<&HandlerSpec> = e.spec.of_kind(k).collect();
            if hs.is_empty() {
                return None;
            }
            let h = *rng.pick(&hs);
            let args = tg.sg.args_for(rng, &c.cid, h, 2);
            // the arguments of a struct message may also come dressed as a variant named after
            // the method (the shape an enum message of another kind would have for it)
            if matches!(k, Kind::Instantiate | Kind::Migrate) && rng.chance(1, 3) {
                return Some((json!({ h.fn_name: Value::Object(args) }), h.id()));
            }
            Some((doc_for(h, &args), h.id()))
        }
    }
}

impl Profile for Misdeliver {
    fn property(&self) -> &'static str {
        "C04"
    }
    fn name(&self) -> &'static str {
        if self.custom {
            "f5-misdeliver"
        } else {
            "f1-misdeliver"
        }
    }
    fn gen_world(&self, rng: &mut Rng, reg: &Reg) -> WorldPlan {
        if self.custom {
            let pool: Vec<&Entry> = reg.family("f5");
            let n = rng.range(1, 3 + crate::extra_contracts()) as usize;
            let mut wp = simple_world(rng, reg, &pool, n, true);
            spawn_child_in_setup(rng, reg, &mut wp);
            return wp;
        }
        let mut pool: Vec<&Entry> = reg.family("f1");
        // programs where the same name / shape exists in several kinds come up more often
        let shared: Vec<&Entry> = pool.iter().copied().filter(|e| e.spec.has_tag("shared_names") || e.spec.cid.ends_with("::pa")).collect();
        for _ in 0..3 {
            pool.extend(shared.iter().copied());
        }
        pool.extend(reg.family("f3").into_iter().take(4));
        // override programs: a document for the generated message of a kind must not reach the
        // user's function of another kind (and the other way round)
        let ov = reg.family("f2");
        for _ in 0..2 {
            pool.extend(ov.iter().copied());
        }
        let n = rng.range(1, 3 + crate::extra_contracts()) as usize;
        let mut wp = simple_world(rng, reg, &pool, n, false);
        spawn_child_in_setup(rng, reg, &mut wp);
        wp
    }
    fn gen_ops(&self, rng: &mut Rng, reg: &Reg, wp: &WorldPlan, base: &RunRecord) -> Vec<Op> {
        if base.contracts.is_empty() {
            return vec![];
        }
        let mut sg = ScriptGen::new(reg, &base.contracts, &base.accounts);
        sg.regular_only = false;
        sg.max_depth = 1;
        let mut tg = TrafficGen { sg, codes: &wp.codes, cross_migrate: false, model: vec![] };
        let accounts = &base.accounts;
        // contracts created by the first contract while it was instantiated (it is their creator)
        let parent = base.contracts.iter().find(|c| c.code == 0).cloned();
        let n = rng.range(3, 10 * crate::scale());
        let mut ops = vec![];
        for _ in 0..n {
            if rng.chance(1, 4) {
                if let Some(op) = tg.op(rng) {
                    ops.push(op);
                }
                continue;
            }
            let c = rng.pick(&base.contracts).clone();
            let k1 = *rng.pick(&Kind::ALL);
            let k2 = *rng.pick(&Kind::ALL);
            let Some((doc, _)) = doc_of_kind(rng, &mut tg, &c, k1) else { continue };
            let msg = Doc::json(&doc);
            crate::driver::note_op_fault(if k1 == k2 { "op_document_to_its_own_kind" } else { "op_misdelivered_document" });
            let op = match k2 {
                // the document reaches a contract made by another contract from its creator
                Kind::Exec if c.code == usize::MAX && parent.is_some() && rng.chance(2, 3) => {
                    let p = parent.clone().unwrap();
                    let script = json!([{"send": {"msg": {"exec": {"peer": c.addr, "ty": "", "method": "", "args": sylvia::cw_std::Binary::from(msg.0.clone()).to_base64(), "funds": null, "form": 0, "slot": null}}, "reply": "none", "gas_limit": null}}]);
                    Op::Exec { target: p.addr.clone(), sender: rng.pick(accounts).clone(), msg: Doc::json(&json!({"go": {"script": script}})), funds: vec![], intent: None }
                }
                // sometimes the contract sends the document to its own execute entry point
                Kind::Exec if rng.chance(1, 3) && reg.get(&c.cid).map(|e| e.spec.of_kind(Kind::Exec).any(|h| h.fn_name == "go") && !e.spec.overrides.contains(&Kind::Exec)).unwrap_or(false) => {
                    let script = json!([{"send": {"msg": {"exec": {"peer": c.addr, "ty": "", "method": "", "args": sylvia::cw_std::Binary::from(msg.0.clone()).to_base64(), "funds": null, "form": 0, "slot": null}}, "reply": "none", "gas_limit": null}}]);
                    Op::Exec { target: c.addr.clone(), sender: rng.pick(accounts).clone(), msg: Doc::json(&json!({"go": {"script": script}})), funds: vec![], intent: None }
                }
                Kind::Exec => Op::Exec { target: c.addr.clone(), sender: rng.pick(accounts).clone(), msg, funds: vec![], intent: None },
                Kind::Query => Op::Query { target: c.addr.clone(), msg, intent: None },
                Kind::Sudo => Op::Sudo { target: c.addr.clone(), msg, intent: None },
                Kind::Instantiate => {
                    let Some(code) = wp.codes.iter().position(|k| k.cid == c.cid) else { continue };
                    Op::Instantiate { code, sender: accounts[0].clone(), msg, label: format!("mis{}", tg.sg.nonce()), admin: None, funds: vec![], salt: None, intent: None }
                }
                Kind::Migrate => {
                    let Some(code) = wp.codes.iter().position(|k| k.cid == c.cid) else { continue };
                    Op::Migrate { target: c.addr.clone(), sender: accounts[3].clone(), code, msg, intent: None }
                }
                Kind::Reply => {
                    // the K1 document travels as the payload of a hand-made sub-message of `c`
                    let Some(e) = reg.get(&c.cid) else { continue };
                    if e.spec.of_kind(Kind::Exec).all(|h| h.fn_name != "go") {
                        continue;
                    }
                    let peer = rng.pick(&base.contracts).clone();
                    let script = json!([{"send": {"msg": {"exec": {"peer": peer.addr, "ty": "", "method": "", "args": sylvia::cw_std::Binary::from(br#"{"go":{"script":[]}}"#.to_vec()).to_base64(), "funds": null, "form": 0, "slot": null}},
                        "reply": {"raw": {"id": rng.below(6), "on": rng.below(3), "payload": sylvia::cw_std::Binary::from(msg.0.clone()).to_base64()}}, "gas_limit": null}}]);
                    Op::Exec { target: c.addr.clone(), sender: accounts[0].clone(), msg: Doc::json(&json!({"go": {"script": script}})), funds: vec![], intent: None }
                }
            };
            ops.push(op);
        }
        let _ = (gen_value as fn(&mut Rng, &str, &Pool) -> Value, Map::<String, Value>::new());
        ops
    }
    fn check(&self, plan: &Plan, rec: &RunRecord, reg: &Reg, cells: &mut Cells) -> Vec<Finding> {
        let mut out = dispatch::check(rec, &all_ops(plan), reg, &Which { c02: true, c04: true }, cells);
        out.extend(wire::check(rec, reg, cells));
        // pair matrix coverage
        for (op, r) in all_ops(plan).iter().zip(rec.ops.iter()) {
            let k2 = match op {
                Op::Exec { intent: None, .. } => "execute",
                Op::Query { intent: None, .. } => "query",
                Op::Sudo { intent: None, .. } => "sudo",
                Op::Instantiate { intent: None, .. } => "instantiate",
                Op::Migrate { intent: None, .. } => "migrate",
                _ => continue,
            };
            // which kind was the document made for? (read off the document and the target's SPEC)
            let (target, bytes) = match op {
                Op::Exec { target, msg, .. } | Op::Query { target, msg, .. } | Op::Sudo { target, msg, .. } | Op::Migrate { target, msg, .. } => (Some(target.as_str()), &msg.0),
                Op::Instantiate { msg, .. } => (None, &msg.0),
                _ => continue,
            };
            let cid = match op {
                Op::Instantiate { code, .. } => plan.codes.get(*code).map(|c| c.cid.clone()),
                _ => target.and_then(|t| rec.contracts.iter().find(|c| c.addr == t)).map(|c| c.cid.clone()),
            };
            let k1 = cid
                .as_deref()
                .and_then(|c| reg.get(c))
                .and_then(|e| Kind::ALL.iter().find(|k| dispatch::derive_intent(e.spec, **k, bytes).is_some()).map(|k| k.entry()))
                .unwrap_or(if String::from_utf8_lossy(bytes).contains("\"gas_used\"") { "reply" } else { "other" });
            cells.hit(format!("c04.pair|{}->{}|{}", k1, k2, if r.outcome.is_ok() { "accepted" } else { "rejected" }));
        }
        out
    }
}
