//! C06: the same raw history on the generated entry points (world 0) and on the reference
//! deployment (world 1), over programs with every sampled subset of overridden kinds.

use super::f1::all_ops;
use super::{std_accounts, Profile, WorldPlan};
use crate::monitor::dispatch::{self, Which};
use crate::monitor::{twin as twinmon, Cells, Finding};
use crate::plan::{Code, Doc, Intent, Op, Plan};
use crate::reg::Reg;
use crate::rng::Rng;
use crate::scripts::ScriptGen;
use crate::values::{doc_for, gen_args, Pool};
use crate::world::{account_addr, RunRecord};
use rt::script::{Msg, ReplyReq, Script, Send, Step};
use rt::spec::{Entry, HandlerSpec, Kind};
use serde_json::{json, Value};
use sylvia::cw_std::Binary;

pub struct EntryPointTwin;

impl Profile for EntryPointTwin {
    fn property(&self) -> &'static str {
        "C06"
    }
    fn name(&self) -> &'static str {
        "f2-entrypoint-twin"
    }
    fn gen_world(&self, rng: &mut Rng, reg: &Reg) -> WorldPlan {
        let pool: Vec<&Entry> = reg.family("f2");
        let n = rng.range(1, 3 + crate::extra_contracts()) as usize;
        let mut codes = vec![];
        let mut codes1 = vec![];
        for _ in 0..n {
            let e = *rng.pick(&pool);
            codes.push(Code { cid: e.spec.cid.to_string(), flavour: 1 });
            codes1.push(Code { cid: e.spec.cid.to_string(), flavour: 0 });
        }
        let accounts = std_accounts(rng);
        let addrs: Vec<String> = accounts.iter().map(|(n, _)| account_addr(n).to_string()).collect();
        let pool_a = Pool { addrs: &addrs };
        let mut setup = vec![];
        for (i, c) in codes.iter().enumerate() {
            let e = reg.get(&c.cid).unwrap();
            let (msg, intent) = if e.spec.overrides.contains(&Kind::Instantiate) {
                (Doc::json(&json!({"tag": format!("setup{i}")})), None)
            } else {
                let h = e.spec.of_kind(Kind::Instantiate).next().unwrap();
                let args = gen_args(rng, h.args, &pool_a, None);
                (Doc::json(&Value::Object(args.clone())), Some(Intent { hid: h.id(), args: Value::Object(args), cid: String::new() }))
            };
            setup.push(Op::Instantiate { code: i, sender: addrs[0].clone(), msg, label: format!("c{i}"), admin: Some(addrs[3].clone()), funds: vec![], salt: None, intent });
        }
        WorldPlan { custom_chain: false, twin: true, accounts, codes, codes1, setup }
    }
    fn gen_ops(&self, rng: &mut Rng, reg: &Reg, wp: &WorldPlan, base: &RunRecord) -> Vec<Op> {
        if base.contracts.is_empty() {
            return vec![];
        }
        let mut sg = ScriptGen::new(reg, &base.contracts, &base.accounts);
        sg.max_depth = 1;
        sg.queries = false;
        sg.fail_pm = *rng.pick(&[0, 150]);
        let accounts = &base.accounts;
        let n = rng.range(3, 12 * crate::scale());
        let mut ops = vec![];
        for _ in 0..n {
            let c = rng.pick(&base.contracts).clone();
            let e = reg.get(&c.cid).unwrap();
            let kind = *rng.pick(&[Kind::Exec, Kind::Exec, Kind::Exec, Kind::Query, Kind::Sudo, Kind::Migrate, Kind::Instantiate, Kind::Reply]);
            let overridden = e.spec.overrides.contains(&kind);
            let ov_doc = |rng: &mut Rng| {
                if matches!(kind, Kind::Instantiate | Kind::Migrate) { json!({"tag": rng.word()}) } else { json!({"poke": {"tag": rng.word()}}) }
            };
            match kind {
                Kind::Reply => {
                    // make some contract send a sub-message with a hand-made reply request, so that
                    // its reply entry point (generated, legacy, overridden or absent) is exercised
                    if e.spec.overrides.contains(&Kind::Exec) {
                        continue;
                    }
                    let peer = rng.pick(&base.contracts).clone();
                    let pe = reg.get(&peer.cid).unwrap();
                    let (pargs, fails) = if pe.spec.overrides.contains(&Kind::Exec) {
                        (json!({"poke": {"tag": "from-sub"}}), false)
                    } else {
                        let fails = rng.chance(1, 3);
                        let inner = if fails { json!([{"fail": {"code": rng.below(1000)}}]) } else { json!([{"set_data": {"data": Binary::from(rng.bytes(3)).to_base64()}}]) };
                        (json!({"go": {"script": inner}}), fails)
                    };
                    let _ = fails;
                    let rs = if rng.chance(1, 3) { json!([{"journal": {"tag": format!("rp{}", sg.nonce())}}]) } else { json!([]) };
                    let payload = serde_json::to_vec(&json!({"nonce": sg.nonce(), "script": rs})).unwrap();
                    let send = Send {
                        msg: Msg::Exec { peer: peer.addr.clone(), ty: String::new(), method: String::new(), args: Binary::from(serde_json::to_vec(&pargs).unwrap()), funds: None, form: 0, slot: None },
                        reply: ReplyReq::Raw { id: rng.below(3), on: rng.below(3) as u8, payload: Binary::from(payload) },
                        gas_limit: None,
                    };
                    let script = serde_json::to_value(Script(vec![Step::Send(send)])).unwrap();
                    let args = json!({"script": script});
                    ops.push(Op::Exec { target: c.addr.clone(), sender: rng.pick(accounts).clone(), msg: Doc::json(&json!({"go": args})), funds: vec![], intent: Some(Intent { hid: "execute::go".into(), args, cid: String::new() }) });
                }
                Kind::Instantiate => {
                    let code = rng.below(wp.codes.len() as u64) as usize;
                    let pe = reg.get(&wp.codes[code].cid).unwrap();
                    let (msg, intent) = if pe.spec.overrides.contains(&Kind::Instantiate) {
                        (Doc::json(&json!({"tag": rng.word()})), None)
                    } else {
                        let h = pe.spec.of_kind(Kind::Instantiate).next().unwrap();
                        let args = sg.args_for(rng, pe.spec.cid, h, 0);
                        (Doc::json(&doc_for(h, &args)), Some(Intent { hid: h.id(), args: Value::Object(args), cid: String::new() }))
                    };
                    ops.push(Op::Instantiate { code, sender: rng.pick(accounts).clone(), msg, label: format!("i{}", sg.nonce()), admin: None, funds: vec![], salt: None, intent });
                }
                Kind::Migrate => {
                    let same: Vec<usize> = wp.codes.iter().enumerate().filter(|(_, k)| k.cid == c.cid).map(|(i, _)| i).collect();
                    let code = *rng.pick(&same);
                    let sender = if rng.chance(4, 5) { accounts[3].clone() } else { accounts[1].clone() };
                    if overridden {
                        ops.push(Op::Migrate { target: c.addr.clone(), sender, code, msg: Doc::json(&ov_doc(rng)), intent: None });
                    } else if let Some(h) = e.spec.of_kind(Kind::Migrate).next() {
                        let args = sg.args_for(rng, &c.cid, h, 0);
                        ops.push(Op::Migrate { target: c.addr.clone(), sender, code, msg: Doc::json(&doc_for(h, &args)), intent: Some(Intent { hid: h.id(), args: Value::Object(args), cid: String::new() }) });
                    } else {
                        // no migrate handler and no override: the chain must get an error in both worlds
                        ops.push(Op::Migrate { target: c.addr.clone(), sender, code, msg: Doc::json(&json!({})), intent: None });
                    }
                }
                _ => {
                    let (msg, intent) = if overridden || rng.chance(1, 10) {
                        (Doc::json(&ov_doc(rng)), None)
                    } else {
                        let hs: Vec<&HandlerSpec> = e.spec.of_kind(kind).collect();
                        let h = *rng.pick(&hs);
                        let args = sg.args_for(rng, &c.cid, h, 0);
                        (Doc::json(&doc_for(h, &args)), Some(Intent { hid: h.id(), args: Value::Object(args), cid: String::new() }))
                    };
                    ops.push(match kind {
                        Kind::Exec => Op::Exec { target: c.addr.clone(), sender: rng.pick(accounts).clone(), msg, funds: if rng.chance(1, 3) { vec![sylvia::cw_std::Coin::new(rng.range(1, 30) as u128, "ucoin")] } else { vec![] }, intent },
                        Kind::Query => Op::Query { target: c.addr.clone(), msg, intent },
                        _ => Op::Sudo { target: c.addr.clone(), msg, intent },
                    });
                }
            }
            if rng.chance(1, 10) {
                ops.push(Op::Block { dh: rng.range(1, 50), dt: rng.range(1, 5000) });
            }
        }
        ops
    }
    fn check(&self, plan: &Plan, rec: &RunRecord, reg: &Reg, cells: &mut Cells) -> Vec<Finding> {
        let mut out = twinmon::check(plan, rec, "C06", false, cells);
        out.extend(twinmon::check_overrides(rec, reg, cells));
        out.extend(dispatch::check(rec, &all_ops(plan), reg, &Which { c02: true, c04: true }, cells));
        out
    }
}
