//! C11: worlds on the custom chain; interfaces written for the empty custom types return
//! responses with every kind of sub-message through the `: custom(..)` bridge.

use super::f1::{all_ops, simple_world, TrafficGen};
use super::{Profile, WorldPlan};
use crate::monitor::dispatch::{self, Which as DWhich};
use crate::monitor::reply::{self, ReplyMonitors};
use crate::monitor::{custom, Cells, Finding};
use crate::plan::{Op, Plan};
use crate::reg::Reg;
use crate::rng::Rng;
use crate::scripts::ScriptGen;
use crate::world::RunRecord;
use rt::spec::Entry;

/// the same worlds decide C11 (bridge) and contribute to C02 (dispatch on a custom chain)
pub struct CustomChain {
    pub prop: &'static str,
    /// worlds on the plain chain, of contracts that write the empty custom types out and bridge
    /// interfaces into them
    pub spelled_empty: bool,
}

impl Profile for CustomChain {
    fn property(&self) -> &'static str {
        self.prop
    }
    fn name(&self) -> &'static str {
        if self.spelled_empty {
            "f1-bridged-empty"
        } else {
            "f5-custom-chain"
        }
    }
    fn gen_world(&self, rng: &mut Rng, reg: &Reg) -> WorldPlan {
        if self.spelled_empty {
            let mut p: Vec<&Entry> = reg.tagged("bridged_empty");
            let others: Vec<&Entry> = reg.family("f1").into_iter().filter(|e| e.spec.has_tag("regular")).take(6).collect();
            let n = rng.range(1, 3) as usize;
            // the subject first, then whoever
            let mut pool = p.clone();
            pool.extend(p.drain(..));
            pool.extend(others);
            let mut wp = simple_world(rng, reg, &pool, n, false);
            if let (Some(first), Some(subject)) = (wp.codes.first().cloned(), reg.tagged("bridged_empty").first()) {
                if !reg.get(&first.cid).map(|e| e.spec.has_tag("bridged_empty")).unwrap_or(false) {
                    // make sure the world has a subject: re-draw with the subject alone in front
                    let only = vec![*subject];
                    let w1 = simple_world(rng, reg, &only, 1, false);
                    let mut w2 = wp;
                    w2.codes.insert(0, w1.codes[0].clone());
                    let mut setup = w1.setup;
                    for op in w2.setup.iter_mut() {
                        if let Op::Instantiate { code, .. } = op {
                            *code += 1;
                        }
                    }
                    setup.extend(w2.setup);
                    w2.setup = setup;
                    wp = w2;
                }
            }
            return wp;
        }
        let p: Vec<&Entry> = reg.family("f5");
        let n = rng.range(1, 3 + crate::extra_contracts()) as usize;
        simple_world(rng, reg, &p, n, true)
    }
    fn gen_ops(&self, rng: &mut Rng, reg: &Reg, wp: &WorldPlan, base: &RunRecord) -> Vec<Op> {
        if base.contracts.is_empty() {
            return vec![];
        }
        let mut sg = ScriptGen::new(reg, &base.contracts, &base.accounts);
        sg.codes = &wp.codes;
        sg.code_ids = &base.code_ids;
        sg.extra_msgs_pm = *rng.pick(&[300, 600, 900]);
        sg.reply_pm = *rng.pick(&[0, 500, 900]);
        sg.fail_pm = *rng.pick(&[0, 100]);
        sg.funds_pm = *rng.pick(&[0, 200]);
        sg.gas_limits = rng.chance(1, 2);
        sg.admin_pm = *rng.pick(&[0, 0, 300]);
        sg.typed_pct = *rng.pick(&[0, 50, 100]);
        sg.max_depth = rng.range(0, 2 + crate::extra_depth()) as u32;
        let mut tg = TrafficGen { sg, codes: &wp.codes, cross_migrate: false, model: vec![] };
        if rng.chance(1, crate::LONG_RUN_ONE_IN) {
            let n = rng.range(258, 330);
            return tg.hammer(rng, n);
        }
        let n = rng.range(3, 12 * crate::scale());
        (0..n).filter_map(|_| tg.op(rng)).collect()
    }
    fn check(&self, plan: &Plan, rec: &RunRecord, reg: &Reg, cells: &mut Cells) -> Vec<Finding> {
        let mut out = custom::check(rec, reg, cells);
        out.extend(dispatch::check(rec, &all_ops(plan), reg, &DWhich { c02: true, c04: true }, cells));
        out.extend(reply::check(rec, reg, &ReplyMonitors { c07: true, c08: true, c09: true }, cells));
        out
    }
}
