//! Worlds of reply-table contracts calling each other (C07, C08, C09).

use super::{std_accounts, Profile, WorldPlan};
use crate::monitor::reply::{self, ReplyMonitors, Table};
use crate::monitor::twin as twinmon;
use crate::monitor::{deliveries, walk, Cells, Delivery, Finding};
use crate::plan::{Code, Doc, Intent, Op, Plan};
use crate::reg::Reg;
use crate::rng::Rng;
use crate::values::{gen_args, gen_value, gen_wrong, Pool};
use crate::world::{account_addr, ContractInfo, Outcome, RunRecord};
use rt::bb::Fault;
use rt::script::{Msg, ReplyReq, Script, Send, Step};
use rt::spec::{DataMode, Entry, HandlerSpec, Kind, On};
use serde_json::{json, Value};
use sylvia::cw_std::{to_json_vec, Binary, Event};

pub struct F3 {
    pub prop: &'static str,
}

fn pb_len(n: usize, out: &mut Vec<u8>) {
    let mut n = n;
    loop {
        let b = (n & 0x7f) as u8;
        n >>= 7;
        if n == 0 {
            out.push(b);
            break;
        }
        out.push(b | 0x80);
    }
}

/// protobuf of MsgExecuteContractResponse { bytes data = 1 }
pub fn exec_envelope(inner: Option<&[u8]>) -> Vec<u8> {
    let mut out = vec![];
    if let Some(d) = inner {
        out.push(0x0a);
        pb_len(d.len(), &mut out);
        out.extend_from_slice(d);
    }
    out
}

/// protobuf of MsgInstantiateContractResponse { string contract_address = 1; bytes data = 2 }
pub fn inst_envelope(addr: &str, inner: Option<&[u8]>) -> Vec<u8> {
    let mut out = vec![0x0a];
    pb_len(addr.len(), &mut out);
    out.extend_from_slice(addr.as_bytes());
    if let Some(d) = inner {
        out.push(0x12);
        pb_len(d.len(), &mut out);
        out.extend_from_slice(d);
    }
    out
}

struct Gen<'a> {
    rng: &'a mut Rng,
    reg: &'a Reg,
    contracts: &'a [ContractInfo],
    code_ids: &'a [u64],
    codes: &'a [Code],
    accounts: &'a [String],
    nonce: u64,
    prop: &'static str,
}

impl<'a> Gen<'a> {
    fn entry(&self, c: &ContractInfo) -> &'a Entry {
        self.reg.get(&c.cid).unwrap()
    }

    fn nonce(&mut self) -> u64 {
        self.nonce += 1;
        self.nonce
    }

    /// payload for a method signature: (what the glue is given, what travels on the wire)
    fn payload(&mut self, m: &HandlerSpec, script: &Script) -> (Binary, Binary) {
        let r = m.reply.as_ref().unwrap();
        let n = self.nonce();
        let s = serde_json::to_value(script).unwrap();
        if r.payload_raw {
            // raw payloads are any bytes, the empty string included
            let b = if self.rng.chance(1, 8) { vec![] } else { serde_json::to_vec(&json!({"nonce": n, "script": s})).unwrap() };
            (Binary::from(b.clone()), Binary::from(b))
        } else if r.payload.len() == 1 && r.payload[0].ty == "Binary" {
            // a lone typed Binary travels as a JSON string (base64)
            let mut bytes = n.to_be_bytes().to_vec();
            bytes.extend(self.rng.bytes(3));
            let v = json!(Binary::from(bytes).to_base64());
            (
                Binary::from(serde_json::to_vec(&json!([v])).unwrap()),
                Binary::from(serde_json::to_vec(&v).unwrap()),
            )
        } else if r.payload.len() == 1 && r.payload[0].ty == "Pay" {
            let v = json!({"nonce": n, "script": s});
            (
                Binary::from(serde_json::to_vec(&json!([v])).unwrap()),
                Binary::from(serde_json::to_vec(&v).unwrap()),
            )
        } else {
            // typed values by parameter type; several travel as one JSON array, a lone one bare
            let pool = Pool { addrs: self.accounts };
            let vals: Vec<Value> = r
                .payload
                .iter()
                .map(|a| match a.ty {
                    "Script" => s.clone(),
                    "u64" => json!(n),
                    other => gen_value(self.rng, other, &pool),
                })
                .collect();
            let given = Binary::from(serde_json::to_vec(&Value::Array(vals.clone())).unwrap());
            if vals.len() == 1 {
                (given, Binary::from(serde_json::to_vec(&vals[0]).unwrap()))
            } else {
                (given.clone(), given)
            }
        }
    }

    /// data the callee should return so that a success method in `mode` sees `cond`
    fn callee_data(&mut self, mode: DataMode, ty: &str) -> Option<Binary> {
        let pool = Pool { addrs: self.accounts };
        let pick = self.rng.below(10);
        match mode {
            DataMode::Typed | DataMode::Opt if ty == "Option<u64>" => match pick {
                0 | 1 => None,
                2 => Some(Binary::from(b"null".to_vec())),
                3 => Some(Binary::from(b"\"seven\"".to_vec())),
                _ => Some(Binary::from(self.rng.below(1000).to_string().into_bytes())),
            },
            DataMode::Typed | DataMode::Opt => match pick {
                0 | 1 => None,
                2 => Some(Binary::from(serde_json::to_vec(&gen_wrong(self.rng, ty)).unwrap())),
                3 => Some(Binary::from(self.rng.bytes(5))),
                // present, well-formed, and not a value of the type
                4 => Some(Binary::from(b"null".to_vec())),
                _ => Some(Binary::from(serde_json::to_vec(&gen_value(self.rng, ty, &pool)).unwrap())),
            },
            _ => match pick {
                0..=2 => None,
                3 => Some(Binary::from(Vec::<u8>::new())),
                _ => {
                    let n = self.rng.range(1, 12) as usize;
                    Some(Binary::from(self.rng.bytes(n)))
                }
            },
        }
    }

    fn small_script(&mut self, from: &ContractInfo, depth: u32) -> Script {
        let mut steps = vec![];
        match self.rng.below(10) {
            0..=3 => {}
            4 | 5 => steps.push(Step::Journal { tag: format!("r{}", self.nonce()) }),
            6 => steps.push(Step::Fail { code: self.rng.below(1000) as u32 }),
            7 => {
                let n = self.rng.below(6) as usize;
                steps.push(Step::SetData { data: Binary::from(self.rng.bytes(n)) })
            }
            8 if self.rng.chance(1, 25) => steps.push(Step::Panic { tag: format!("r{}", self.nonce()) }),
            8 => steps.push(Step::Attr { k: "k".into(), v: self.rng.word() }),
            _ => {
                if depth < 3 {
                    steps.push(Step::Journal { tag: format!("n{}", self.nonce()) });
                    steps.push(Step::Send(self.send(from, depth + 1)));
                }
            }
        }
        Script(steps)
    }

    /// one sub-message from contract `from`, with a reply request drawn from its table
    fn send(&mut self, from: &ContractInfo, depth: u32) -> Send {
        let e = self.entry(from);
        let t = Table::of(e);
        let names: Vec<&'static str> = t.names.keys().copied().collect();
        // --- reply request
        let mode = self.rng.below(10);
        let mut want_inst = false;
        let mut callee_data: Option<Option<Binary>> = None;
        let reply = if names.is_empty() || mode == 0 {
            ReplyReq::None
        } else if mode <= 7 {
            let name = *self.rng.pick(&names);
            let ms = t.methods(name);
            let sig = ms[0];
            if let Some(s) = ms.iter().find(|m| m.reply.as_ref().unwrap().on == On::Success) {
                let r = s.reply.as_ref().unwrap();
                want_inst = matches!(r.data, DataMode::Instantiate | DataMode::InstantiateOpt) && self.rng.chance(4, 5);
                // now and then an instantiation is wired to a method of another mode
                if !want_inst && self.rng.chance(1, 12) {
                    want_inst = true;
                }
                callee_data = Some(self.callee_data(r.data, r.data_ty));
            }
            let rs = self.small_script(from, depth);
            let (given, _) = self.payload(sig, &rs);
            let recv = self.rng.below(12) as u8;
            // an existing sub-message may already have been stamped by the same builder
            let pre = if recv % 3 == 0 && self.rng.chance(1, 3) {
                let other = self.small_script(from, 3);
                Some(self.payload(sig, &other).0)
            } else {
                None
            };
            ReplyReq::Handler { name: name.to_string(), payload: given, recv, pre }
        } else {
            // hand-made sub-message: any id (also unknown ones), any trigger
            let known = self.rng.chance(3, 4);
            let (id, payload) = if known {
                let name = *self.rng.pick(&names);
                let sig = t.methods(name)[0];
                let rs = self.small_script(from, depth);
                let good = self.payload(sig, &rs).1;
                // hand-made sub-messages do not have to carry a payload the handler can decode
                let p = match self.rng.below(6) {
                    0 => Binary::default(),
                    1 => Binary::from(self.rng.bytes(4)),
                    _ => good,
                };
                (t.names[name], p)
            } else {
                // ids no handler owns: far away, at the edge of the table, at the edge of u64
                let id = match self.rng.below(5) {
                    0 => u64::MAX,
                    1 => names.len() as u64,
                    2 => u64::MAX - names.len() as u64,
                    // a known id in the lower half, something else above
                    3 => ((1 + self.rng.below(9)) << 32) | self.rng.below(names.len() as u64),
                    _ => 1000 + self.rng.below(5),
                };
                (id, Binary::from(b"{}".to_vec()))
            };
            ReplyReq::Raw { id, on: self.rng.below(4) as u8, payload }
        };
        // --- the callee and what it does
        let peers: Vec<&ContractInfo> = self.contracts.iter().collect();
        let peer = (*self.rng.pick(&peers)).clone();
        let mut inner = vec![];
        if self.rng.chance(1, 4) {
            inner.push(Step::Journal { tag: format!("c{}", self.nonce()) });
        }
        if self.rng.chance(1, 5) {
            inner.push(Step::Event { ty: "ping".into(), k: "n".into(), v: self.nonce().to_string() });
        }
        let data = callee_data.unwrap_or_else(|| {
            if self.rng.chance(1, 2) {
                None
            } else {
                let n = self.rng.below(8) as usize;
                Some(Binary::from(self.rng.bytes(n)))
            }
        });
        if let Some(d) = data {
            inner.push(Step::SetData { data: d });
        }
        if depth < 3 && self.rng.chance(1, 5) {
            inner.push(Step::Send(self.send(&peer, depth + 1)));
        }
        if self.rng.chance(3, 10) {
            inner.push(Step::Fail { code: self.rng.below(1000) as u32 });
        }
        let inner = Script(inner);
        let msg = if want_inst {
            // instantiate a fresh peer: spec-built instantiate arguments with the inner script
            let code = self.rng.below(self.codes.len() as u64) as usize;
            let pe = self.reg.get(&self.codes[code].cid).unwrap();
            let h = pe.spec.of_kind(Kind::Instantiate).next().unwrap();
            let pool = Pool { addrs: self.accounts };
            let args = gen_args(self.rng, h.args, &pool, Some(serde_json::to_value(&inner).unwrap()));
            let typed = self.rng.chance(2, 3);
            Msg::Inst {
                code_id: self.code_ids[code],
                ty: if typed { pe.spec.cid.to_string() } else { String::new() },
                args: Binary::from(serde_json::to_vec(&Value::Object(args)).unwrap()),
                label: Some(format!("sub{}", self.nonce())),
                admin: None,
                funds: None,
                salt: if self.rng.chance(1, 3) { Some(Binary::from(self.nonce().to_be_bytes().to_vec())) } else { None },
            }
        } else {
            let typed = self.rng.chance(2, 3);
            let args = json!({"script": serde_json::to_value(&inner).unwrap()});
            if typed {
                Msg::Exec {
                    peer: peer.addr.clone(),
                    ty: peer.cid.clone(),
                    method: ":go".into(),
                    args: Binary::from(serde_json::to_vec(&args).unwrap()),
                    funds: None,
                    form: self.rng.below(3) as u8,
                    slot: None,
                }
            } else {
                Msg::Exec {
                    peer: peer.addr.clone(),
                    ty: String::new(),
                    method: String::new(),
                    args: Binary::from(serde_json::to_vec(&json!({"go": args})).unwrap()),
                    funds: None,
                    form: 0,
                    slot: None,
                }
            }
        };
        // now and then the sub-message is not a call into a contract at all
        let msg = if !want_inst && self.rng.chance(1, 10) {
            let to = self.rng.pick(self.accounts).clone();
            Msg::Bank { to, amount: vec![sylvia::cw_std::Coin::new(self.rng.below(3) as u128, "ucoin")] }
        } else {
            msg
        };
        Send {
            msg,
            reply,
            gas_limit: self.rng.gas_limit(),
        }
    }
}

impl Profile for F3 {
    fn property(&self) -> &'static str {
        self.prop
    }
    fn name(&self) -> &'static str {
        "f3-replies"
    }

    fn gen_world(&self, rng: &mut Rng, reg: &Reg) -> WorldPlan {
        let fam = reg.family("f3");
        let data: Vec<&Entry> = fam.iter().copied().filter(|e| e.spec.has_tag("data")).collect();
        let mut codes = vec![];
        let n = rng.range(2, 3 + crate::extra_contracts());
        for i in 0..n {
            let e: &Entry = if i == 0 && self.prop == "C09" && rng.chance(4, 5) {
                *rng.pick(&data)
            } else {
                *rng.pick(&fam)
            };
            codes.push(Code { cid: e.spec.cid.to_string(), flavour: rng.below(2) as u8 });
        }
        let accounts = std_accounts(rng);
        let addrs: Vec<String> = accounts.iter().map(|(n, _)| account_addr(n).to_string()).collect();
        let pool = Pool { addrs: &addrs };
        let mut setup = vec![];
        for (i, c) in codes.iter().enumerate() {
            let e = reg.get(&c.cid).unwrap();
            let h = e.spec.of_kind(Kind::Instantiate).next().unwrap();
            let args = gen_args(rng, h.args, &pool, None);
            setup.push(Op::Instantiate {
                code: i,
                sender: addrs[0].clone(),
                msg: Doc::json(&Value::Object(args.clone())),
                label: format!("c{i}"),
                admin: Some(addrs[3].clone()),
                funds: if rng.chance(1, 2) { vec![sylvia::cw_std::Coin::new(rng.range(1, 40) as u128, "ucoin")] } else { vec![] },
                salt: None,
                intent: Some(Intent { hid: h.id(), args: Value::Object(args), cid: String::new() }),
            });
        }
        WorldPlan { custom_chain: false, twin: false, accounts, codes, codes1: vec![], setup }
    }

    fn gen_ops(&self, rng: &mut Rng, reg: &Reg, wp: &WorldPlan, base: &RunRecord) -> Vec<Op> {
        // now and then a long history (state kept across calls only shows late)
        let n = if rng.chance(1, 2 * crate::LONG_RUN_ONE_IN) { rng.range(130, 170) } else { rng.range(1, 6 * crate::scale()) };
        let mut g = Gen {
            rng,
            reg,
            contracts: &base.contracts,
            code_ids: &base.code_ids,
            codes: &wp.codes,
            accounts: &base.accounts,
            nonce: 0,
            prop: self.prop,
        };
        let mut ops = vec![];
        if g.contracts.is_empty() {
            return ops;
        }
        for _ in 0..n {
            if g.rng.chance(1, 8) {
                ops.push(Op::Block { dh: g.rng.range(1, 100), dt: g.rng.range(1, 100_000) });
                continue;
            }
            // the subject is the first contract most of the time
            let subject = if g.rng.chance(3, 4) { g.contracts[0].clone() } else { g.rng.pick(g.contracts).clone() };
            let mut steps = vec![];
            if g.rng.chance(1, 3) {
                steps.push(Step::Journal { tag: format!("t{}", g.nonce()) });
            }
            for _ in 0..g.rng.range(1, 3) {
                steps.push(Step::Send(g.send(&subject, 0)));
            }
            let script = serde_json::to_value(Script(steps)).unwrap();
            let args = json!({"script": script});
            let sender = g.rng.pick(g.accounts).clone();
            ops.push(Op::Exec {
                target: subject.addr.clone(),
                sender,
                msg: Doc::json(&json!({"go": args})),
                funds: vec![],
                intent: Some(Intent { hid: "execute::go".into(), args, cid: String::new() }),
            });
            // the very same operation once more (same block, same bytes)
            if g.rng.chance(1, 8) {
                let again = ops.last().cloned().unwrap();
                ops.push(again);
            }
        }
        let _ = g.prop;
        ops
    }

    fn wants_faults(&self) -> bool {
        true
    }

    fn gen_faults(&self, rng: &mut Rng, reg: &Reg, recon: &RunRecord) -> Vec<((u32, u32), Fault)> {
        let mut out = vec![];
        let addrs: Vec<String> = recon.contracts.iter().map(|c| c.addr.clone()).collect();
        for op in &recon.ops {
            let (ds, _) = deliveries(&op.events, 0);
            let mut targets: Vec<(u32, bool, String)> = vec![];
            walk(&ds, &mut |d: &Delivery| {
                if d.entry() == "reply" {
                    targets.push((d.ord(), d.msg()["result"].get("ok").is_some(), d.cid().to_string()));
                }
            });
            for (ord, ok, cid) in targets {
                let key = (op.idx, ord);
                // f7: the fields cw-multi-test leaves empty
                if self.prop != "C09" || rng.chance(1, 3) {
                    let n_ev = rng.below(3);
                    let events = (0..n_ev)
                        .map(|i| Event::new(format!("inj{}", i)).add_attribute("k", rng.word()))
                        .collect();
                    let n_r = rng.below(3);
                    let responses = (0..n_r)
                        .map(|i| {
                            let n = rng.below(5) as usize;
                            (format!("/inj.Type{}", i), Binary::from(rng.bytes(n)))
                        })
                        .collect();
                    if rng.chance(5, 6) {
                        let gas = match rng.below(5) {
                            0 => u64::MAX,
                            1 => 0,
                            _ => rng.next() >> 20,
                        };
                        out.push((key, Fault::ReplyMeta { gas, events, responses }));
                    }
                }
                // f16: a reply delivered outside a transaction
                if rng.chance(1, 12) {
                    out.push((key, Fault::EnvNoTx));
                }
                // f5 / f6: reply data absent or damaged
                let p = if self.prop == "C09" { 2 } else { 8 };
                if ok && rng.chance(1, p) {
                    let _ = reg.get(&cid);
                    let f = match rng.below(10) {
                        9 => {
                            // well-formed JSON of a declared data type, but not inside an envelope
                            let pool = Pool { addrs: &addrs };
                            let ty = *rng.pick(&["Pt", "String", "u64"]);
                            Fault::ReplyDataReplace(Binary::from(serde_json::to_vec(&gen_value(rng, ty, &pool)).unwrap()))
                        }
                        0 | 1 => Fault::ReplyDataDrop,
                        2 => Fault::ReplyDataTrunc(rng.below(64) as usize),
                        3 => Fault::ReplyDataFlip(rng.below(64) as usize, rng.below(8) as u8),
                        4 => Fault::ReplyDataReplace(Binary::from(rng.bytes(7))),
                        5 => {
                            // a correct execute envelope around JSON of another type
                            let inner = serde_json::to_vec(&json!({"unexpected": rng.below(9)})).unwrap();
                            Fault::ReplyDataReplace(Binary::from(exec_envelope(Some(&inner))))
                        }
                        6 => Fault::ReplyDataReplace(Binary::from(exec_envelope(None))),
                        7 => {
                            let pool = Pool { addrs: &addrs };
                            let ty = *rng.pick(&["Pt", "String", "u64"]);
                            let inner = if rng.chance(1, 4) { b"null".to_vec() } else { serde_json::to_vec(&gen_value(rng, ty, &pool)).unwrap() };
                            Fault::ReplyDataReplace(Binary::from(exec_envelope(Some(&inner))))
                        }
                        _ => {
                            let a = rng.pick(&addrs).clone();
                            let inner = rng.bytes(3);
                            Fault::ReplyDataReplace(Binary::from(inst_envelope(&a, if rng.chance(1, 2) { Some(&inner) } else { None })))
                        }
                    };
                    out.push((key, f));
                }
            }
        }
        out
    }

    fn check(&self, _plan: &Plan, rec: &RunRecord, reg: &Reg, cells: &mut Cells) -> Vec<Finding> {
        let which = ReplyMonitors { c07: true, c08: true, c09: true };
        let all = reply::check(rec, reg, &which, cells);
        for op in &rec.ops {
            if let Outcome::Panic(p) = &op.outcome {
                cells.hit("panic");
                let _ = p;
            }
        }
        all
    }
}

// ------------------------------------------------------------------------------------ C06

/// The same reply-table worlds and histories on the generated entry points (world 0) and on
/// the reference deployment (world 1): the `reply` entry point forwards every id, payload and
/// result to the dispatcher exactly like the reference does.
pub struct ReplyTwin;

impl Profile for ReplyTwin {
    fn property(&self) -> &'static str {
        "C06"
    }
    fn name(&self) -> &'static str {
        "f3-entrypoint-twin"
    }
    fn gen_world(&self, rng: &mut Rng, reg: &Reg) -> WorldPlan {
        let mut wp = F3 { prop: "C07" }.gen_world(rng, reg);
        for c in wp.codes.iter_mut() {
            c.flavour = 1;
        }
        wp.codes1 = wp.codes.iter().map(|c| Code { cid: c.cid.clone(), flavour: 0 }).collect();
        wp.twin = true;
        wp
    }
    fn gen_ops(&self, rng: &mut Rng, reg: &Reg, wp: &WorldPlan, base: &RunRecord) -> Vec<Op> {
        F3 { prop: "C07" }.gen_ops(rng, reg, wp, base)
    }
    fn check(&self, plan: &Plan, rec: &RunRecord, reg: &Reg, cells: &mut Cells) -> Vec<Finding> {
        let mut out = twinmon::check(plan, rec, "C06", false, cells);
        out.extend(twinmon::check_overrides(rec, reg, cells));
        out.extend(reply::check(rec, reg, &ReplyMonitors { c07: true, c08: true, c09: true }, cells));
        out
    }
}
