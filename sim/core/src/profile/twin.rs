//! C12: the same seeded history through generated multitest proxies (world 0) and as
//! spec-derived raw JSON (world 1).

use super::{std_accounts, Profile, WorldPlan};
use crate::monitor::{twin as twinmon, Cells, Finding};
use crate::plan::{Code, Doc, Op, Plan, Twin};
use crate::reg::Reg;
use crate::rng::Rng;
use crate::scripts::ScriptGen;
use crate::twin::FLAVOUR_PROXY;
use crate::values::{gen_args, Pool};
use crate::world::{account_addr, RunRecord};
use rt::spec::{Entry, HandlerSpec, Kind};
use serde_json::Value;
use sylvia::cw_std::Coin;

pub struct ProxyTwin {
    /// drive the proxies of the custom-chain programs (family f5) instead of the dispatch family
    pub custom_chain: bool,
}

impl Profile for ProxyTwin {
    fn property(&self) -> &'static str {
        "C12"
    }
    fn name(&self) -> &'static str {
        if self.custom_chain {
            "f5-proxy-twin"
        } else {
            "f1-proxy-twin"
        }
    }
    fn gen_world(&self, rng: &mut Rng, reg: &Reg) -> WorldPlan {
        let pool: Vec<&Entry> = reg.tagged("proxy").into_iter().filter(|e| (e.spec.has_tag("regular") || e.spec.has_tag("int128")) && e.proxy.is_some() && e.spec.custom_chain == self.custom_chain).collect();
        let n = rng.range(1, 3 + crate::extra_contracts()) as usize;
        let mut codes = vec![];
        let mut codes1 = vec![];
        for _ in 0..n {
            let e = *rng.pick(&pool);
            codes.push(Code { cid: e.spec.cid.to_string(), flavour: FLAVOUR_PROXY });
            codes1.push(Code { cid: e.spec.cid.to_string(), flavour: 0 });
            // the same program stored twice: a migration can then move a contract to another code id
            // while handles typed for the program stay usable
            if rng.chance(1, 3) {
                codes.push(Code { cid: e.spec.cid.to_string(), flavour: FLAVOUR_PROXY });
                codes1.push(Code { cid: e.spec.cid.to_string(), flavour: 0 });
            }
            // another instantiation of the same generic program likes to be stored next to it
            let base = e.spec.cid.split('@').next().unwrap_or("");
            if let Some(sib) = pool.iter().find(|o| o.spec.cid != e.spec.cid && o.spec.cid.split('@').next() == Some(base)) {
                if rng.chance(1, 2) {
                    codes.push(Code { cid: sib.spec.cid.to_string(), flavour: FLAVOUR_PROXY });
                    codes1.push(Code { cid: sib.spec.cid.to_string(), flavour: 0 });
                }
            }
        }
        let accounts = std_accounts(rng);
        let addrs: Vec<String> = accounts.iter().map(|(n, _)| account_addr(n).to_string()).collect();
        let pool_a = Pool { addrs: &addrs };
        let mut setup = vec![];
        for (i, c) in codes.iter().enumerate() {
            let e = reg.get(&c.cid).unwrap();
            let h = e.spec.of_kind(Kind::Instantiate).next().unwrap();
            let args = gen_args(rng, h.args, &pool_a, None);
            setup.push(Op::Twin(Twin {
                hid: "instantiate".into(),
                code: i,
                slot: 0,
                sender: addrs[0].clone(),
                args: Value::Object(args),
                funds: None,
                label: Some(format!("c{i}")),
                admin: Some(addrs[3].clone()),
                salt: None,
            }));
        }
        WorldPlan { custom_chain: self.custom_chain, twin: true, accounts, codes, codes1, setup }
    }
    fn gen_ops(&self, rng: &mut Rng, reg: &Reg, wp: &WorldPlan, base: &RunRecord) -> Vec<Op> {
        if base.contracts.is_empty() {
            return vec![];
        }
        let mut sg = ScriptGen::new(reg, &base.contracts, &base.accounts);
        sg.fail_pm = *rng.pick(&[0, 100, 300]);
        sg.funds_pm = *rng.pick(&[0, 200]);
        sg.typed_pct = *rng.pick(&[0, 50, 100]);
        sg.max_depth = rng.range(0, 2 + crate::extra_depth()) as u32;
        sg.codes = &wp.codes;
        sg.code_ids = &base.code_ids;
        sg.inst_pm = *rng.pick(&[0, 0, 300]);
        if self.custom_chain {
            sg.extra_msgs_pm = *rng.pick(&[0, 400]);
            sg.reply_pm = *rng.pick(&[0, 600]);
        }
        let accounts = &base.accounts;
        let n = rng.range(3, 12 * crate::scale());
        let mut ops = vec![];
        let mut n_contracts = base.contracts.len();
        for _ in 0..n {
            let slot = rng.below(n_contracts.min(base.contracts.len()) as u64) as usize;
            let c = &base.contracts[slot];
            let e = reg.get(&c.cid).unwrap();
            let pick = rng.below(20);
            let kind = match pick {
                0..=8 => Kind::Exec,
                9..=12 => Kind::Query,
                13..=15 => Kind::Sudo,
                16 => Kind::Migrate,
                17 | 18 => Kind::Instantiate,
                _ => {
                    // (now and then only the time moves)
                    ops.push(Op::Block { dh: if rng.chance(1, 3) { 0 } else { rng.range(1, 100) }, dt: rng.range(1, 10_000) });
                    // ask the very same question again after the clock moved
                    if let Some(q) = ops.iter().rev().find(|o| matches!(o, Op::Twin(t) if t.hid.starts_with("query:"))).cloned() {
                        if rng.chance(2, 3) {
                            ops.push(q);
                        }
                    }
                    continue;
                }
            };
            if kind == Kind::Instantiate {
                // now and then the very same (code, sender, salt) again, with other arguments
                let again = ops.iter().rev().find_map(|o| match o {
                    Op::Twin(t) if t.hid == "instantiate" && t.salt.is_some() => Some(t.clone()),
                    _ => None,
                });
                if let (Some(prev), true) = (again, rng.chance(1, 3)) {
                    let pe = reg.get(&wp.codes[prev.code].cid).unwrap();
                    let h = pe.spec.of_kind(Kind::Instantiate).next().unwrap();
                    let args = sg.args_for(rng, pe.spec.cid, h, 0);
                    ops.push(Op::Twin(Twin { args: Value::Object(args), label: Some(format!("again{}", sg.nonce())), funds: None, ..prev }));
                    continue;
                }
                let code = rng.below(wp.codes.len() as u64) as usize;
                let pe = reg.get(&wp.codes[code].cid).unwrap();
                let h = pe.spec.of_kind(Kind::Instantiate).next().unwrap();
                let args = sg.args_for(rng, pe.spec.cid, h, 0);
                ops.push(Op::Twin(Twin {
                    hid: "instantiate".into(),
                    code,
                    slot: 0,
                    sender: rng.pick(accounts).clone(),
                    args: Value::Object(args),
                    funds: match rng.below(6) {
                        0 => Some(vec![Coin::new(rng.range(1, 60) as u128, "ucoin")]),
                        1 => Some(vec![]),
                        // several coins in the caller's order, a repeated denom, a zero coin
                        2 => Some(vec![Coin::new(rng.range(1, 9) as u128, "ucoin"), Coin::new(rng.range(1, 9) as u128, "uatom")]),
                        3 => Some(vec![Coin::new(rng.below(3) as u128, "ucoin"), Coin::new(1u128, "uatom"), Coin::new(2u128, "ucoin")]),
                        _ => None,
                    },
                    label: match rng.below(8) { 0 | 1 => None, 2 => Some(String::new()), 3 => Some(format!(" lbl{}\t", sg.nonce())), 4 => Some(rng.pick(&[" ", "  lead", "trail  ", "in side"]).to_string()), _ => Some(format!("lbl{}", sg.nonce())) },
                    admin: match rng.below(6) { 0 | 1 | 2 => Some(rng.pick(accounts).clone()), 3 => Some(String::new()), _ => None },
                    salt: if rng.chance(1, 3) { let n = rng.range(0, 8) as usize; Some(Doc(rng.bytes(n))) } else { None },
                }));
                n_contracts += 0; // new instances are not targeted by later ops of this plan
                continue;
            }
            let hs: Vec<&HandlerSpec> = e.spec.of_kind(kind).filter(|h| h.regular).collect();
            if hs.is_empty() {
                continue;
            }
            let h = *rng.pick(&hs);
            let args = sg.args_for(rng, &c.cid, h, 0);
            let same: Vec<usize> = wp.codes.iter().enumerate().filter(|(_, k)| k.cid == c.cid).map(|(i, _)| i).collect();
            ops.push(Op::Twin(Twin {
                hid: h.id(),
                code: if kind == Kind::Migrate { *rng.pick(&same) } else { 0 },
                slot,
                sender: if kind == Kind::Migrate && rng.chance(3, 4) { accounts[3].clone() } else { rng.pick(accounts).clone() },
                args: Value::Object(args),
                funds: if kind == Kind::Exec {
                    match rng.below(8) {
                        0 => Some(vec![Coin::new(rng.range(1, 60) as u128, "ucoin")]),
                        1 => Some(vec![]),
                        // several coins, in an order of the caller's choosing
                        2 => Some(vec![Coin::new(rng.range(1, 9) as u128, "ucoin"), Coin::new(rng.range(1, 9) as u128, "uatom")]),
                        // zero amounts are the caller's to send too
                        3 => Some(vec![Coin::new(0u128, "ucoin")]),
                        4 => Some(vec![Coin::new(rng.below(2) as u128, "uatom"), Coin::new(rng.range(0, 3) as u128, "ucoin")]),
                        _ => None,
                    }
                } else {
                    None
                },
                label: None,
                admin: None,
                salt: None,
            }));
        }
        ops
    }
    fn check(&self, plan: &Plan, rec: &RunRecord, _reg: &Reg, cells: &mut Cells) -> Vec<Finding> {
        twinmon::check(plan, rec, "C12", true, cells)
    }
}
