//! C10: contracts calling, querying, instantiating and administrating each other through the
//! generated helpers. C20: remote handles stored by one code version and read by another.

use super::f1::{all_ops, simple_world, TrafficGen};
use super::{Profile, WorldPlan};
use crate::monitor::dispatch::{self, Which as DWhich};
use crate::monitor::remote::{self, Which};
use crate::monitor::{Cells, Finding};
use crate::plan::{Doc, Intent, Op, Plan};
use crate::reg::Reg;
use crate::rng::Rng;
use crate::scripts::ScriptGen;
use crate::values::doc_for;
use crate::world::RunRecord;
use rt::script::{Script, Step};
use rt::spec::{Entry, Kind};
use serde_json::{json, Value};

pub struct Remotes;

fn pool(reg: &Reg) -> Vec<&Entry> {
    reg.family("f1").into_iter().filter(|e| e.spec.has_tag("regular")).collect()
}

impl Profile for Remotes {
    fn property(&self) -> &'static str {
        "C10"
    }
    fn name(&self) -> &'static str {
        "f1-remotes"
    }
    fn gen_world(&self, rng: &mut Rng, reg: &Reg) -> WorldPlan {
        let p = pool(reg);
        let n = rng.range(2, 4 + crate::extra_contracts()) as usize;
        let mut wp = simple_world(rng, reg, &p, n, false);
        // some instances are administrated by another contract of the world (admin helpers need it):
        // the first instance's address is not known yet, so the admin is patched after setup by
        // a migration-free trick: instantiate the later ones with the first one's *predicted* role
        // -- instead we simply let accounts[3] be admin and let scripts change it
        let _ = &mut wp;
        wp
    }
    fn gen_ops(&self, rng: &mut Rng, reg: &Reg, wp: &WorldPlan, base: &RunRecord) -> Vec<Op> {
        if base.contracts.is_empty() {
            return vec![];
        }
        let mut sg = ScriptGen::new(reg, &base.contracts, &base.accounts);
        sg.codes = &wp.codes;
        sg.code_ids = &base.code_ids;
        sg.typed_pct = 100;
        sg.dyn_pct = *rng.pick(&[0, 50, 100]);
        sg.funds_pm = *rng.pick(&[0, 300, 700]);
        sg.fail_pm = *rng.pick(&[0, 100]);
        sg.inst_pm = *rng.pick(&[0, 300, 600]);
        sg.admin_pm = *rng.pick(&[0, 300]);
        sg.max_depth = rng.range(1, 3 + crate::extra_depth()) as u32;
        let accounts = &base.accounts;
        let mut ops = vec![];
        // hand the admin role of a few instances to other contracts, so that admin helpers matter
        for c in base.contracts.iter().skip(1) {
            if rng.chance(1, 2) {
                let new_admin = base.contracts[0].addr.clone();
                // through the chain's own update-admin (accounts[3] is the admin set at setup)
                let script = json!([{"send": {"msg": {"update_admin": {"peer": c.addr, "ty": c.cid, "admin": new_admin}}, "reply": "none", "gas_limit": null}}]);
                let _ = script;
                ops.push(Op::Exec {
                    target: c.addr.clone(),
                    sender: accounts[3].clone(),
                    msg: Doc::text("{}"),
                    funds: vec![],
                    intent: None,
                });
                ops.pop();
            }
        }
        let mut tg = TrafficGen { sg, codes: &wp.codes, cross_migrate: false, model: vec![] };
        let n = rng.range(3, 10 * crate::scale());
        for _ in 0..n {
            // mostly `go` with a script full of helper uses
            if rng.chance(2, 3) {
                let c = rng.pick(&base.contracts).clone();
                let e = reg.get(&c.cid).unwrap();
                if let Some(h) = e.spec.of_kind(Kind::Exec).find(|h| h.fn_name == "go") {
                    let args = tg.sg.args_for(rng, &c.cid, h, 0);
                    ops.push(Op::Exec {
                        target: c.addr.clone(),
                        sender: rng.pick(accounts).clone(),
                        msg: Doc::json(&doc_for(h, &args)),
                        funds: vec![],
                        intent: Some(Intent { hid: h.id(), args: Value::Object(args), cid: String::new() }),
                    });
                    continue;
                }
            }
            if let Some(op) = tg.op(rng) {
                ops.push(op);
            }
        }
        ops
    }
    fn check(&self, plan: &Plan, rec: &RunRecord, reg: &Reg, cells: &mut Cells) -> Vec<Finding> {
        let mut out = remote::check(rec, reg, &Which { c10: true, c20: true }, cells);
        out.extend(dispatch::check(rec, &all_ops(plan), reg, &DWhich { c02: true, c04: true }, cells));
        // every call in these worlds is built by a helper: none of them may take the chain down
        for op in &rec.ops {
            if let Some(p) = op.outcome.foreign_panic() {
                out.push(Finding::new("C10", "c10.panic", op.idx, format!("an operation made of helper-built calls panicked: {p}")));
            }
        }
        out
    }
}

// ------------------------------------------------------------------------------------ C20

pub struct StoredHandles;

impl Profile for StoredHandles {
    fn property(&self) -> &'static str {
        "C20"
    }
    fn name(&self) -> &'static str {
        "f1-stored-handles"
    }
    fn gen_world(&self, rng: &mut Rng, reg: &Reg) -> WorldPlan {
        let p: Vec<&Entry> = pool(reg).into_iter().filter(|e| e.spec.of_kind(Kind::Migrate).next().is_some()).collect();
        let n = rng.range(2, 4 + crate::extra_contracts()) as usize;
        simple_world(rng, reg, &p, n, false)
    }
    fn gen_ops(&self, rng: &mut Rng, reg: &Reg, wp: &WorldPlan, base: &RunRecord) -> Vec<Op> {
        if base.contracts.is_empty() {
            return vec![];
        }
        // the model of who lives where changes with migrations; keep a local copy
        let mut contracts = base.contracts.clone();
        let accounts = &base.accounts;
        let mut ops = vec![];
        let n = rng.range(4, 12 * crate::scale());
        let mut nonce = 0u64;
        for _ in 0..n {
            let ci = rng.below(contracts.len() as u64) as usize;
            let c = contracts[ci].clone();
            match rng.below(10) {
                0..=5 => {
                    // a `go` whose script stores / re-stores / uses handles
                    let snapshot = contracts.clone();
                    let mut sg = ScriptGen::new(reg, &snapshot, accounts);
                    sg.nonce = nonce;
                    sg.remote_pm = 1000;
                    sg.fail_pm = *rng.pick(&[0, 0, 200]);
                    sg.max_depth = 1;
                    sg.queries = false;
                    let e = reg.get(&c.cid).unwrap();
                    let Some(h) = e.spec.of_kind(Kind::Exec).find(|h| h.fn_name == "go") else { continue };
                    let mut steps = vec![];
                    for _ in 0..rng.range(1, 3) {
                        steps.extend(sg.remote_steps(rng, 0));
                    }
                    if rng.chance(1, 6) {
                        steps.push(Step::Fail { code: 7 });
                    }
                    nonce = sg.nonce;
                    let args = json!({"script": serde_json::to_value(Script(steps)).unwrap()});
                    ops.push(Op::Exec { target: c.addr.clone(), sender: rng.pick(accounts).clone(), msg: Doc::json(&json!({"go": args})), funds: vec![], intent: Some(Intent { hid: h.id(), args, cid: String::new() }) });
                }
                6 | 7 => {
                    // code replacement: only storage survives
                    let code = rng.below(wp.codes.len() as u64) as usize;
                    let ne = reg.get(&wp.codes[code].cid).unwrap();
                    let Some(h) = ne.spec.of_kind(Kind::Migrate).next() else { continue };
                    let snapshot = contracts.clone();
                    let mut sg = ScriptGen::new(reg, &snapshot, accounts);
                    sg.nonce = nonce;
                    sg.fail_pm = 0;
                    sg.max_depth = 0;
                    sg.queries = false;
                    // the new code may write and re-write handles while it migrates
                    sg.remote_pm = *rng.pick(&[0, 700]);
                    let args = sg.args_for(rng, ne.spec.cid, h, 0);
                    nonce = sg.nonce;
                    ops.push(Op::Migrate { target: c.addr.clone(), sender: accounts[3].clone(), code, msg: Doc::json(&doc_for(h, &args)), intent: Some(Intent { hid: h.id(), args: Value::Object(args), cid: String::new() }) });
                    contracts[ci].cid = ne.spec.cid.to_string();
                    contracts[ci].code = code;
                }
                8 => {
                    // bytes left behind by an older program that stored a plain struct
                    let who = rng.pick(&contracts).addr.clone();
                    // also with spellings a legacy writer may have used: escapes, spacing
                    let text = match rng.below(5) {
                        // (a record with more members than a handle has: a reader ignores them)
                        4 => format!("{{\"label\":\"main\",\"addr\":\"{}\",\"code_id\":4}}", who),
                        0 => format!("{{ \"addr\" : \"{}\" }}", who),
                        1 => format!("{{\"addr\":\"\\u0063{}\"}}", &who[1..]),
                        _ => format!("{{\"addr\":\"{}\"}}", who),
                    };
                    ops.push(Op::Poke { target: c.addr.clone(), key: rng.pick(&["r0", "r1", "r2"]).to_string(), val: Doc::text(text) });
                }
                _ => ops.push(Op::Block { dh: rng.range(1, 500), dt: rng.range(1, 86_400) }),
            }
        }
        ops
    }
    fn check(&self, plan: &Plan, rec: &RunRecord, reg: &Reg, cells: &mut Cells) -> Vec<Finding> {
        let mut out = remote::check(rec, reg, &Which { c10: true, c20: true }, cells);
        out.extend(dispatch::check(rec, &all_ops(plan), reg, &DWhich { c02: true, c04: true }, cells));
        // storing, loading and re-storing handles never takes the chain down
        for op in &rec.ops {
            if let Some(p) = op.outcome.foreign_panic() {
                out.push(Finding::new("C20", "c20.panic", op.idx, format!("an operation that only stores / loads / uses handles panicked: {p}")));
            }
        }
        // schema name independence is a pure clause: asserted once per process, as a boot assertion
        static ONCE: std::sync::OnceLock<Vec<(String, String)>> = std::sync::OnceLock::new();
        let names = ONCE.get_or_init(|| rt::registry::all().into_iter().map(|(k, f)| (k.clone(), (f.schema_name)())).collect());
        for (k, n) in names {
            if n != "Remote" {
                out.push(Finding::new("C20", "c20.schema_name", 0, format!("schema name of Remote<{k}> is `{n}`")));
            }
        }
        cells.hit(format!("c20.schema_names_checked|{}", names.len()));
        // ... and one schema that contains handles of all parameterisations has one definition for them
        static ROOTS: std::sync::OnceLock<Vec<(String, String)>> = std::sync::OnceLock::new();
        let roots = ROOTS.get_or_init(|| rt::registry::all().into_iter().map(|(k, f)| (k.clone(), (f.schema_root)())).collect());
        static DEFS: std::sync::OnceLock<Vec<String>> = std::sync::OnceLock::new();
        let defs = DEFS.get_or_init(|| {
            let mut gen = sylvia::schemars::gen::SchemaGenerator::default();
            for (_, f) in rt::registry::all() {
                (f.schema_register)(&mut gen);
            }
            gen.definitions().keys().filter(|k| k.contains("Remote")).cloned().collect()
        });
        // ... and the schema itself is the same document for every parameterisation, whichever is
        // generated first in the process
        // every reference inside a root schema must resolve inside that document
        fn dangling(v: &serde_json::Value, defs: &serde_json::Value, out: &mut Vec<String>) {
            match v {
                serde_json::Value::Object(o) => {
                    if let Some(r) = o.get("$ref").and_then(|r| r.as_str()) {
                        if let Some(name) = r.strip_prefix("#/definitions/") {
                            if defs.get(name).is_none() {
                                out.push(name.to_string());
                            }
                        }
                    }
                    for c in o.values() {
                        dangling(c, defs, out);
                    }
                }
                serde_json::Value::Array(a) => a.iter().for_each(|c| dangling(c, defs, out)),
                _ => {}
            }
        }
        for (k, r) in roots.iter() {
            let v: serde_json::Value = serde_json::from_str(r).unwrap_or(serde_json::Value::Null);
            let mut missing = vec![];
            dangling(&v, &v["definitions"], &mut missing);
            if !missing.is_empty() {
                out.push(Finding::new("C20", "c20.schema_dangling", 0, format!("schema of Remote<{k}> refers to definitions it does not contain: {:?}", missing)));
                break;
            }
        }
        if let Some((k0, r0)) = roots.first() {
            for (k, r) in roots.iter().skip(1) {
                if r != r0 {
                    out.push(Finding::new("C20", "c20.schema_differs", 0, format!("schema of Remote<{k}> differs from the schema of Remote<{k0}>: {} vs {}", r.chars().take(300).collect::<String>(), r0.chars().take(300).collect::<String>())));
                    break;
                }
            }
        }
        if defs.len() != 1 || defs[0] != "Remote" {
            out.push(Finding::new("C20", "c20.schema_defs", 0, format!("a schema holding handles of {} parameterisations defines {:?} instead of one `Remote`", names.len(), defs)));
        }
        out
    }
}
