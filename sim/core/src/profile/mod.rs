//! Profiles: how worlds, histories and fault plans are drawn for a property, and which
//! monitors are armed.

use crate::monitor::{Cells, Finding};
use crate::plan::{Code, Op, Plan};
use crate::reg::Reg;
use crate::rng::Rng;
use crate::world::RunRecord;
use rt::bb::Fault;
use sylvia::cw_std::Coin;

pub mod f1;
pub mod f2;
pub mod f3;
pub mod f5;
pub mod remotes;
pub mod twin;

pub struct WorldPlan {
    pub custom_chain: bool,
    pub twin: bool,
    pub accounts: Vec<(String, Vec<Coin>)>,
    pub codes: Vec<Code>,
    pub codes1: Vec<Code>,
    pub setup: Vec<Op>,
}

pub trait Profile: Sync {
    fn property(&self) -> &'static str;
    fn name(&self) -> &'static str;
    fn gen_world(&self, rng: &mut Rng, reg: &Reg) -> WorldPlan;
    /// `base` is the record of the world after setup (addresses are known)
    fn gen_ops(&self, rng: &mut Rng, reg: &Reg, wp: &WorldPlan, base: &RunRecord) -> Vec<Op>;
    /// link faults, drawn after a fault-free reconnaissance run; None = no link faults wanted
    fn wants_faults(&self) -> bool {
        false
    }
    fn gen_faults(&self, _rng: &mut Rng, _reg: &Reg, _recon: &RunRecord) -> Vec<((u32, u32), Fault)> {
        vec![]
    }
    /// armed monitors (decide the verdict) -- also fills coverage cells
    fn check(&self, plan: &Plan, rec: &RunRecord, reg: &Reg, cells: &mut Cells) -> Vec<Finding>;
}

pub fn base_plan(p: &dyn Profile, seed: u64, run: u64, wp: &WorldPlan) -> Plan {
    Plan {
        property: p.property().to_string(),
        profile: p.name().to_string(),
        seed,
        run,
        custom_chain: wp.custom_chain,
        prefix: crate::world::prefix().to_string(),
        twin: wp.twin,
        accounts: wp.accounts.clone(),
        codes: wp.codes.clone(),
        codes1: wp.codes1.clone(),
        setup: wp.setup.clone(),
        ops: vec![],
        faults: vec![],
    }
}

pub fn ucoin(n: u128) -> Coin {
    Coin::new(n, "ucoin")
}

pub fn std_accounts(rng: &mut Rng) -> Vec<(String, Vec<Coin>)> {
    vec![
        ("alice".to_string(), vec![ucoin(1_000_000 + rng.below(1000) as u128), Coin::new(500u128, "uatom")]),
        ("bob".to_string(), vec![ucoin(rng.below(50) as u128)]),
        ("carol".to_string(), vec![]),
        ("admin".to_string(), vec![ucoin(10_000)]),
    ]
}
