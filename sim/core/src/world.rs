//! One simulated chain with its contracts behind fault links, and the executor of operations.

use crate::plan::{Code, Doc, Op, Plan, Twin};
use crate::reg::Reg;
use rt::bb::{self, Ev};
use rt::cust::CModule;
use rt::link::{err_value, FaultLink};
use rt::proxy::{AppC, AppE, InstOpts, PCode, POut, SvAppC, SvAppE};
use rt::spec::{Entry, ErrClass};
use serde_json::{json, Value};
use std::collections::BTreeMap;
use std::panic::{catch_unwind, AssertUnwindSafe};
use sylvia::cw_multi_test::{AppBuilder, AppResponse, Executor, SudoMsg, WasmSudo};
use sylvia::cw_std::testing::MockApi;
use sylvia::cw_std::{
    from_json, to_json_vec, Addr, Binary, Coin, ContractResult, CosmosMsg, Empty, QueryRequest,
    SystemResult, WasmMsg, WasmQuery,
};

pub enum Chain {
    E(Box<SvAppE>),
    C(Box<SvAppC>),
}

macro_rules! on_app {
    ($self:expr, $app:ident => $body:expr) => {
        match $self {
            Chain::E(a) => {
                let mut $app = a.app_mut();
                $body
            }
            Chain::C(a) => {
                let mut $app = a.app_mut();
                $body
            }
        }
    };
}

/// read-only access: must not go through `app_mut()` (observing the chain may not disturb it)
macro_rules! on_app_ref {
    ($self:expr, $app:ident => $body:expr) => {
        match $self {
            Chain::E(a) => {
                let $app = a.app();
                $body
            }
            Chain::C(a) => {
                let $app = a.app();
                $body
            }
        }
    };
}

/// address formats a simulated chain may use (one per run; part of the plan)
pub const PREFIXES: [&str; 4] = ["cosmwasm", "juno", "osmo", "x"];

thread_local! {
    static PREFIX: std::cell::Cell<&'static str> = const { std::cell::Cell::new("cosmwasm") };
}

pub fn set_prefix(p: &str) {
    let s = PREFIXES.iter().find(|x| **x == p).copied().unwrap_or("cosmwasm");
    PREFIX.with(|c| c.set(s));
}

pub fn prefix() -> &'static str {
    PREFIX.with(|c| c.get())
}

pub fn chain_api() -> MockApi {
    MockApi::default().with_prefix(prefix())
}

pub fn account_addr(name: &str) -> Addr {
    chain_api().addr_make(name)
}

#[derive(Clone, Debug, PartialEq, serde::Serialize)]
pub struct ContractInfo {
    pub addr: String,
    pub cid: String,
    pub code: usize,
}

/// outcome of one top-level operation, normalised
#[derive(Clone, Debug, PartialEq, serde::Serialize)]
#[serde(rename_all = "snake_case")]
pub enum Outcome {
    /// events + data of the AppResponse
    Ok(Value),
    /// instantiate: address + response
    Addr(String, Value),
    /// query: response bytes as text
    Bytes(Value),
    /// proxy query value
    Val(Value),
    Err(Value),
    Panic(String),
    None,
}

impl Outcome {
    /// a panic of generated code or of the chain (a scripted panic of a handler is user code's)
    pub fn foreign_panic(&self) -> Option<&str> {
        match self {
            Outcome::Panic(p) if !p.contains(rt::script::SCRIPTED_PANIC) => Some(p.as_str()),
            _ => None,
        }
    }
    pub fn is_ok(&self) -> bool {
        matches!(
            self,
            Outcome::Ok(_) | Outcome::Addr(..) | Outcome::Bytes(_) | Outcome::Val(_) | Outcome::None
        )
    }
    pub fn err_class(&self) -> Option<&str> {
        match self {
            Outcome::Err(v) => v.get("class").and_then(|c| c.as_str()),
            _ => None,
        }
    }
}

#[derive(Clone, Debug, serde::Serialize)]
pub struct OpRecord {
    pub idx: u32,
    pub setup: bool,
    pub events: Vec<Ev>,
    pub outcome: Outcome,
    /// second world in twin runs
    pub outcome1: Option<Outcome>,
    /// state digest of every known contract + balances, after the op (world 0 / world 1)
    pub state: BTreeMap<String, Value>,
    pub state1: Option<BTreeMap<String, Value>>,
    pub block: (u64, u64),
}

pub struct World<'r> {
    /// codes stored through sylvia's generated `CodeId::store_code` (they borrow the boxed app
    /// below; declared first so that they are dropped first)
    pub pcodes: Vec<Option<Box<dyn PCode<'static> + 'static>>>,
    pub chain: Chain,
    pub reg: &'r Reg,
    pub code_ids: Vec<u64>,
    pub codes: Vec<Code>,
    pub contracts: Vec<ContractInfo>,
    pub accounts: Vec<String>,
    /// move the clock with the underlying test chain's own `update_block` instead of the
    /// multitest harness' wrappers (the raw world of the proxy twin)
    pub raw_block: bool,
}

fn classify_for(reg: &Reg, cid: Option<&str>) -> fn(&anyhow::Error) -> ErrClass {
    fn other(e: &anyhow::Error) -> ErrClass {
        ErrClass::Other(format!("{:#}", e))
    }
    match cid.and_then(|c| reg.get(c)) {
        Some(e) => e.classify,
        None => other,
    }
}

fn resp_value(r: &AppResponse) -> Value {
    json!({"events": bb::j(&r.events), "data": bb::j(&r.data)})
}

fn fnv(bytes: &[u8], h: &mut u64) {
    for b in bytes {
        *h ^= *b as u64;
        *h = h.wrapping_mul(0x100000001b3);
    }
}

impl<'r> World<'r> {
    pub fn new(reg: &'r Reg, custom_chain: bool, accounts: &[(String, Vec<Coin>)]) -> World<'r> {
        let accts: Vec<(Addr, Vec<Coin>)> = accounts
            .iter()
            .map(|(n, c)| (account_addr(n), c.clone()))
            .collect();
        let chain = if custom_chain {
            let app: AppC = AppBuilder::new_custom()
                .with_api(chain_api())
                .with_custom(CModule)
                .build(|router, _api, storage| {
                    for (a, c) in &accts {
                        if !c.is_empty() {
                            router.bank.init_balance(storage, a, c.clone()).unwrap();
                        }
                    }
                });
            Chain::C(Box::new(sylvia::multitest::App::new(app)))
        } else {
            let app: AppE = AppBuilder::new().with_api(chain_api()).build(|router, _api, storage| {
                for (a, c) in &accts {
                    if !c.is_empty() {
                        router.bank.init_balance(storage, a, c.clone()).unwrap();
                    }
                }
            });
            Chain::E(Box::new(sylvia::multitest::App::new(app)))
        };
        World {
            pcodes: vec![],
            chain,
            reg,
            code_ids: vec![],
            codes: vec![],
            contracts: vec![],
            accounts: accts.iter().map(|(a, _)| a.to_string()).collect(),
            raw_block: false,
        }
    }

    /// store a corpus contract behind a fault link
    pub fn store(&mut self, code: &Code) -> Result<u64, String> {
        let e: &Entry = self
            .reg
            .get(&code.cid)
            .ok_or_else(|| format!("unknown cid {}", code.cid))?;
        let id = match &self.chain {
            Chain::E(a) => {
                let f = e.store_e.ok_or("contract not for the Empty chain")?;
                let inner = f(code.flavour).ok_or("flavour not available")?;
                a.app_mut().store_code(Box::new(FaultLink {
                    inner,
                    cid: e.spec.cid,
                    flavour: code.flavour,
                    classify: e.classify,
                }))
            }
            Chain::C(a) => {
                let f = e.store_c.ok_or("contract not for the custom chain")?;
                let inner = f(code.flavour).ok_or("flavour not available")?;
                a.app_mut().store_code(Box::new(FaultLink {
                    inner,
                    cid: e.spec.cid,
                    flavour: code.flavour,
                    classify: e.classify,
                }))
            }
        };
        self.code_ids.push(id);
        self.codes.push(code.clone());
        self.pcodes.push(None);
        Ok(id)
    }

    /// the boxed app with an unbounded lifetime; only handed to proxies that are dropped
    /// before the app (see field order)
    fn app_static(&self) -> Option<&'static SvAppE> {
        match &self.chain {
            Chain::E(b) => Some(unsafe { &*(&**b as *const SvAppE) }),
            Chain::C(_) => None,
        }
    }
    fn app_static_c(&self) -> Option<&'static SvAppC> {
        match &self.chain {
            Chain::C(b) => Some(unsafe { &*(&**b as *const SvAppC) }),
            Chain::E(_) => None,
        }
    }

    /// store through the generated multitest `CodeId::store_code` (no link in between)
    pub fn store_via_proxy(&mut self, code: &Code) -> Result<u64, String> {
        let e: &Entry = self.reg.get(&code.cid).ok_or_else(|| format!("unknown cid {}", code.cid))?;
        let p = e.proxy.as_ref().ok_or("program has no proxy glue")?;
        let pc = match p {
            rt::proxy::ProxyFns::E { store, .. } => store(self.app_static().ok_or("program is for the Empty chain")?),
            rt::proxy::ProxyFns::C { store, .. } => store(self.app_static_c().ok_or("program is for the custom chain")?),
        };
        let id = pc.code_id();
        self.code_ids.push(id);
        self.codes.push(code.clone());
        self.pcodes.push(Some(pc));
        Ok(id)
    }

    /// one proxy call; panics of the proxy are caught and reported as such
    pub fn proxy_apply(&mut self, t: &Twin) -> Outcome {
        let sender = Addr::unchecked(t.sender.clone());
        let args = serde_json::to_vec(&t.args).unwrap();
        let funds = t.funds.clone();
        let out = if t.hid == "instantiate" {
            let Some(Some(pc)) = self.pcodes.get(t.code) else { return Outcome::Panic("harness: code not proxy-stored".into()) };
            let salt = t.salt.as_ref().map(|d| d.0.clone());
            let opts = InstOpts { label: t.label.as_deref(), admin: t.admin.as_deref(), funds: funds.as_deref(), salt: salt.as_deref() };
            guarded(|| pc.instantiate(&args, &opts, &sender))
        } else {
            let Some(c) = self.contracts.get(t.slot) else { return Outcome::Err(json!({"class": "harness", "text": "no such slot"})) };
            let Some(e) = self.reg.get(&c.cid) else { return Outcome::Panic("harness: unknown cid".into()) };
            let Some(p) = e.proxy.as_ref() else { return Outcome::Panic("harness: no proxy glue".into()) };
            let addr = Addr::unchecked(c.addr.clone());
            let new_code = self.code_ids.get(t.code).copied().unwrap_or(9999);
            // two calls in three go through the `Proxy` value that the instantiation returned (kept by
            // the code that made it, usable while the contract still runs that program); the choice is
            // a function of the operation alone, so that minimising a plan does not move it
            let pick = args.iter().fold(t.hid.len() as u32 + t.sender.len() as u32, |h, b| h.wrapping_mul(31).wrapping_add(*b as u32));
            let kept = if pick % 3 != 0 {
                let mut r = None;
                for (i, pc) in self.pcodes.iter().enumerate() {
                    let (Some(pc), Some(k)) = (pc, self.codes.get(i)) else { continue };
                    if k.cid != c.cid {
                        continue;
                    }
                    if let Some(o) = guarded_opt(|| pc.call_kept(&addr, &t.hid, &args, funds.as_deref(), &sender, new_code)) {
                        // reach: calls through a kept handle, and those made after the contract's code
                        // was replaced under the handle (migration to another code id)
                        let replaced = c.code != i;
                        bb::with(|s| {
                            *s.fired.entry("op_call_through_kept_proxy").or_insert(0) += 1;
                            if replaced {
                                *s.fired.entry("op_kept_proxy_after_code_replaced").or_insert(0) += 1;
                            }
                        });
                        r = Some(o);
                        break;
                    }
                }
                r
            } else {
                None
            };
            if let Some(o) = kept {
                o
            } else {
            match p {
                rt::proxy::ProxyFns::E { call, .. } => {
                    let Some(app) = self.app_static() else { return Outcome::Panic("harness: wrong chain".into()) };
                    let call = *call;
                    guarded(|| call(app, &addr, &t.hid, &args, funds.as_deref(), &sender, new_code))
                }
                rt::proxy::ProxyFns::C { call, .. } => {
                    let Some(app) = self.app_static_c() else { return Outcome::Panic("harness: wrong chain".into()) };
                    let call = *call;
                    guarded(|| call(app, &addr, &t.hid, &args, funds.as_deref(), &sender, new_code))
                }
            }
            }
        };
        match out {
            Err(p) => Outcome::Panic(p),
            Ok(POut::Addr(a)) => {
                let cid = self.codes.get(t.code).map(|c| c.cid.clone()).unwrap_or_default();
                if !self.contracts.iter().any(|c| c.addr == a) {
                    self.contracts.push(ContractInfo { addr: a.clone(), cid, code: t.code });
                }
                Outcome::Addr(a, Value::Null)
            }
            Ok(POut::Resp(v)) => {
                if t.hid.starts_with("migrate:") {
                    let new_cid = self.codes.get(t.code).map(|c| c.cid.clone());
                    if let (Some(c), Some(n)) = (self.contracts.get_mut(t.slot), new_cid) {
                        c.cid = n;
                        c.code = t.code;
                    }
                }
                Outcome::Ok(v)
            }
            Ok(POut::Val(v)) => Outcome::Val(v),
            Ok(POut::Err(c)) => Outcome::Err(match c {
                ErrClass::Scripted(c) => json!({"class": "scripted", "code": c}),
                ErrClass::Own(t) => json!({"class": "own", "text": t}),
                ErrClass::Std(t) => json!({"class": "std", "text": t}),
                ErrClass::Other(t) => json!({"class": "other", "text": t}),
            }),
            Ok(POut::Panic(p)) => Outcome::Panic(p),
        }
    }

    pub fn cid_of(&self, addr: &str) -> Option<&str> {
        self.contracts
            .iter()
            .find(|c| c.addr == addr)
            .map(|c| c.cid.as_str())
    }

    fn err_outcome(&self, target: Option<&str>, e: &anyhow::Error) -> Outcome {
        let cl = classify_for(self.reg, target.and_then(|t| self.cid_of(t)));
        let mut v = err_value(cl, e);
        v["full"] = Value::String(format!("{:#}", e));
        Outcome::Err(v)
    }

    fn execute_msg(&mut self, sender: &str, target: Option<&str>, msg: WasmMsg) -> Outcome {
        let sender = Addr::unchecked(sender);
        let r: anyhow::Result<AppResponse> = match &self.chain {
            Chain::E(a) => a.app_mut().execute(sender, CosmosMsg::<Empty>::Wasm(msg)),
            Chain::C(a) => a.app_mut().execute(sender, CosmosMsg::Wasm(msg)),
        };
        match r {
            Ok(r) => Outcome::Ok(resp_value(&r)),
            Err(e) => self.err_outcome(target, &e),
        }
    }

    pub fn query_raw(&self, target: &str, msg: &[u8]) -> Outcome {
        let req: QueryRequest<Empty> = QueryRequest::Wasm(WasmQuery::Smart {
            contract_addr: target.to_string(),
            msg: Binary::from(msg.to_vec()),
        });
        let bytes = to_json_vec(&req).unwrap();
        use sylvia::cw_std::Querier;
        let r = match &self.chain {
            Chain::E(a) => a.app().raw_query(&bytes),
            Chain::C(a) => a.app().raw_query(&bytes),
        };
        match r {
            SystemResult::Ok(ContractResult::Ok(b)) => Outcome::Bytes(bb::bytes_text(b.as_slice())),
            SystemResult::Ok(ContractResult::Err(e)) => {
                Outcome::Err(json!({"class": "query", "text": e}))
            }
            SystemResult::Err(e) => Outcome::Err(json!({"class": "system", "text": e.to_string()})),
        }
    }

    fn discover(&mut self, events: &[Ev]) {
        self.discover_from(events, 0)
    }

    pub fn discover_from(&mut self, events: &[Ev], w: u8) {
        for ev in events {
            if let Ev::Deliver {
                addr, cid, entry, world, ..
            } = ev
            {
                if *world == w && *entry == "instantiate" && !self.contracts.iter().any(|c| &c.addr == addr) {
                    self.contracts.push(ContractInfo {
                        addr: addr.clone(),
                        cid: cid.clone(),
                        code: usize::MAX,
                    });
                }
            }
        }
    }

    pub fn apply(&mut self, op: &Op) -> Outcome {
        match op {
            Op::Exec {
                target,
                sender,
                msg,
                funds,
                ..
            } => self.execute_msg(
                sender,
                Some(target),
                WasmMsg::Execute {
                    contract_addr: target.clone(),
                    msg: Binary::from(msg.0.clone()),
                    funds: funds.clone(),
                },
            ),
            Op::Query { target, msg, .. } => self.query_raw(target, &msg.0),
            Op::Sudo { target, msg, .. } => {
                let m = SudoMsg::Wasm(WasmSudo {
                    contract_addr: Addr::unchecked(target.clone()),
                    message: Binary::from(msg.0.clone()),
                });
                let r = on_app!(&self.chain, app => app.sudo(m));
                match r {
                    Ok(r) => Outcome::Ok(resp_value(&r)),
                    Err(e) => self.err_outcome(Some(target), &e),
                }
            }
            Op::Instantiate {
                code,
                sender,
                msg,
                label,
                admin,
                funds,
                salt,
                ..
            } => {
                let code_id = self.code_ids.get(*code).copied().unwrap_or(9999);
                let m = match salt {
                    Some(s) => WasmMsg::Instantiate2 {
                        admin: admin.clone(),
                        code_id,
                        label: label.clone(),
                        msg: Binary::from(msg.0.clone()),
                        funds: funds.clone(),
                        salt: Binary::from(s.0.clone()),
                    },
                    None => WasmMsg::Instantiate {
                        admin: admin.clone(),
                        code_id,
                        msg: Binary::from(msg.0.clone()),
                        funds: funds.clone(),
                        label: label.clone(),
                    },
                };
                let cid = self.codes.get(*code).map(|c| c.cid.clone());
                let sender_a = Addr::unchecked(sender.clone());
                let r: anyhow::Result<AppResponse> = match &self.chain {
                    Chain::E(a) => a.app_mut().execute(sender_a, CosmosMsg::<Empty>::Wasm(m)),
                    Chain::C(a) => a.app_mut().execute(sender_a, CosmosMsg::Wasm(m)),
                };
                match r {
                    Ok(r) => {
                        let addr = r
                            .data
                            .as_ref()
                            .and_then(|d| {
                                sylvia::cw_utils::parse_instantiate_response_data(d.as_slice()).ok()
                            })
                            .map(|d| d.contract_address)
                            .unwrap_or_default();
                        if !self.contracts.iter().any(|c| c.addr == addr) {
                            self.contracts.push(ContractInfo {
                                addr: addr.clone(),
                                cid: cid.unwrap_or_default(),
                                code: *code,
                            });
                        } else if let Some(c) = self.contracts.iter_mut().find(|c| c.addr == addr) {
                            c.code = *code;
                        }
                        Outcome::Addr(addr, resp_value(&r))
                    }
                    Err(e) => {
                        let cl = classify_for(self.reg, cid.as_deref());
                        let mut v = err_value(cl, &e);
                        v["full"] = Value::String(format!("{:#}", e));
                        Outcome::Err(v)
                    }
                }
            }
            Op::Migrate {
                target,
                sender,
                code,
                msg,
                ..
            } => {
                let new_code_id = self.code_ids.get(*code).copied().unwrap_or(9999);
                // errors of a migrate belong to the *new* code's error type
                let new_cid = self.codes.get(*code).map(|c| c.cid.clone());
                let sender_a = Addr::unchecked(sender.clone());
                let m = WasmMsg::Migrate {
                    contract_addr: target.clone(),
                    new_code_id,
                    msg: Binary::from(msg.0.clone()),
                };
                let r: anyhow::Result<AppResponse> = match &self.chain {
                    Chain::E(a) => a.app_mut().execute(sender_a, CosmosMsg::<Empty>::Wasm(m)),
                    Chain::C(a) => a.app_mut().execute(sender_a, CosmosMsg::Wasm(m)),
                };
                match r {
                    Ok(r) => {
                        if let Some(c) = self.contracts.iter_mut().find(|c| &c.addr == target) {
                            c.code = *code;
                            if let Some(n) = &new_cid {
                                c.cid = n.clone();
                            }
                        }
                        Outcome::Ok(resp_value(&r))
                    }
                    Err(e) => {
                        let cl = classify_for(self.reg, new_cid.as_deref());
                        let mut v = err_value(cl, &e);
                        v["full"] = Value::String(format!("{:#}", e));
                        Outcome::Err(v)
                    }
                }
            }
            Op::Block { dh, dt } => {
                // through the multitest harness' own wrappers (they are part of what the proxies sit on);
                // alternate between the two ways of moving the clock
                let f = |b: &mut sylvia::cw_std::BlockInfo| {
                    b.height += dh;
                    b.time = b.time.plus_seconds(*dt);
                    // (now and then the chain is upgraded to a new id on the way)
                    if dt % 5 == 3 {
                        b.chain_id = format!("chain-{}", dt % 97);
                    }
                };
                if self.raw_block {
                    on_app!(&self.chain, app => app.update_block(f));
                    return Outcome::None;
                }
                match &self.chain {
                    Chain::E(a) => {
                        if dh % 2 == 0 {
                            a.update_block(f)
                        } else {
                            let mut b = a.block_info();
                            f(&mut b);
                            a.set_block(b)
                        }
                    }
                    Chain::C(a) => {
                        if dh % 2 == 0 {
                            a.update_block(f)
                        } else {
                            let mut b = a.block_info();
                            f(&mut b);
                            a.set_block(b)
                        }
                    }
                }
                Outcome::None
            }
            Op::Poke { target, key, val } => {
                let a = Addr::unchecked(target.clone());
                on_app!(&self.chain, app => {
                    let mut st = app.contract_storage_mut(&a);
                    st.set(key.as_bytes(), &val.0);
                });
                Outcome::None
            }
            Op::Twin(_) => Outcome::Panic("harness: twin op outside a twin run".to_string()),
        }
    }

    pub fn block(&self) -> (u64, u64) {
        let b = on_app_ref!(&self.chain, app => app.block_info());
        (b.height, b.time.seconds())
    }

    /// digest of every known contract's raw storage, contract info, and all known balances
    pub fn state(&self) -> BTreeMap<String, Value> {
        let mut out = BTreeMap::new();
        let bi = on_app_ref!(&self.chain, app => app.block_info());
        out.insert("block".to_string(), json!({"height": bi.height, "time": bi.time.nanos().to_string(), "chain_id": bi.chain_id}));
        for c in &self.contracts {
            let a = Addr::unchecked(c.addr.clone());
            let (h, journal, n, info) = on_app_ref!(&self.chain, app => {
                let dump = app.dump_wasm_raw(&a);
                let mut h: u64 = 0xcbf29ce484222325;
                let mut journal = String::new();
                for (k, v) in &dump {
                    fnv(k, &mut h);
                    fnv(&[0xff], &mut h);
                    fnv(v, &mut h);
                    fnv(&[0xfe], &mut h);
                    if k.as_slice() == bb::JOURNAL_KEY {
                        journal = String::from_utf8_lossy(v).to_string();
                    }
                }
                let info = app.contract_data(&a).ok().map(|d| {
                    json!({"code_id": d.code_id, "creator": d.creator.as_str(), "admin": d.admin.as_ref().map(|a| a.as_str()), "label": d.label})
                });
                (h, journal, dump.len(), info)
            });
            out.insert(
                format!("c:{}", c.addr),
                json!({"h": format!("{:016x}", h), "journal": journal, "keys": n, "info": info}),
            );
        }
        // the code records (who stored what)
        for id in &self.code_ids {
            let info = on_app_ref!(&self.chain, app => app.wrap().query_wasm_code_info(*id));
            out.insert(
                format!("code:{}", id),
                match info {
                    Ok(i) => json!({"creator": i.creator.as_str(), "checksum": i.checksum.to_hex()}),
                    Err(e) => Value::String(e.to_string()),
                },
            );
        }
        let mut who: Vec<String> = self.accounts.clone();
        who.extend(self.contracts.iter().map(|c| c.addr.clone()));
        for w in who {
            let bal = on_app_ref!(&self.chain, app => app.wrap().query_all_balances(w.clone()));
            out.insert(
                format!("b:{}", w),
                match bal {
                    Ok(b) => bb::j(&b),
                    Err(e) => Value::String(e.to_string()),
                },
            );
        }
        if let Chain::C(a) = &self.chain {
            let app = a.app();
            let notes = app.storage();
            use sylvia::cw_std::Storage;
            // the custom module's journal lives in the root storage under its key
            let _ = notes.get(rt::cust::NOTES_KEY);
        }
        out
    }
}

thread_local! {
    static PANIC_MSG: std::cell::RefCell<String> = const { std::cell::RefCell::new(String::new()) };
}

pub fn install_panic_hook() {
    std::panic::set_hook(Box::new(|info| {
        let msg = format!("{}", info);
        PANIC_MSG.with(|p| *p.borrow_mut() = msg);
    }));
}

pub fn last_panic() -> String {
    PANIC_MSG.with(|p| p.borrow().clone())
}

pub(crate) fn guarded<T>(f: impl FnOnce() -> T) -> Result<T, String> {
    match catch_unwind(AssertUnwindSafe(f)) {
        Ok(v) => Ok(v),
        Err(_) => Err(PANIC_MSG.with(|p| p.borrow().clone())),
    }
}

fn guarded_opt<T>(f: impl FnOnce() -> Option<T>) -> Option<Result<T, String>> {
    match guarded(f) {
        Ok(None) => None,
        Ok(Some(o)) => Some(Ok(o)),
        Err(p) => Some(Err(p)),
    }
}

pub struct RunRecord {
    pub contracts: Vec<ContractInfo>,
    pub contracts1: Vec<ContractInfo>,
    pub code_ids: Vec<u64>,
    /// twin runs: the code ids world 0 got (world 1's are `code_ids`)
    pub code_ids0: Vec<u64>,
    pub accounts: Vec<String>,
    pub ops: Vec<OpRecord>,
    pub fired: BTreeMap<&'static str, u64>,
    /// harness-level problem (cannot build the world as planned)
    pub harness_error: Option<String>,
}

/// Execute a plan from scratch. Pure function of (plan, code).
pub fn execute(plan: &Plan, reg: &Reg) -> RunRecord {
    bb::reset();
    set_prefix(&plan.prefix);
    bb::with(|s| {
        for (k, f) in &plan.faults {
            s.plan.entry(*k).or_default().push(f.clone());
        }
    });
    if plan.twin {
        return crate::twin::execute_twin(plan, reg);
    }
    let mut w = World::new(reg, plan.custom_chain, &plan.accounts);
    let mut harness_error = None;
    for c in &plan.codes {
        if let Err(e) = w.store(c) {
            harness_error = Some(format!("store {}: {}", c.cid, e));
        }
    }
    let mut recs = vec![];
    let all: Vec<(bool, &Op)> = plan
        .setup
        .iter()
        .map(|o| (true, o))
        .chain(plan.ops.iter().map(|o| (false, o)))
        .collect();
    for (i, (setup, op)) in all.into_iter().enumerate() {
        bb::begin_op(i as u32);
        let outcome = match guarded(|| w.apply(op)) {
            Ok(o) => o,
            Err(p) => Outcome::Panic(p),
        };
        let events = bb::take_events();
        w.discover(&events);
        let state = match guarded(|| w.state()) {
            Ok(s) => s,
            Err(p) => {
                harness_error = Some(format!("state dump panicked: {p}"));
                BTreeMap::new()
            }
        };
        recs.push(OpRecord {
            idx: i as u32,
            setup,
            events,
            outcome,
            outcome1: None,
            state,
            state1: None,
            block: w.block(),
        });
    }
    RunRecord {
        contracts: w.contracts.clone(),
        contracts1: vec![],
        code_ids: w.code_ids.clone(),
        code_ids0: vec![],
        accounts: w.accounts.clone(),
        ops: recs,
        fired: bb::with(|s| s.fired.clone()),
        harness_error,
    }
}

pub(crate) fn resp_json(r: &AppResponse) -> Value {
    resp_value(r)
}
