//! The one source of randomness: xoshiro256** seeded through SplitMix64.
#[derive(Clone)]
pub struct Rng {
    s: [u64; 4],
}

pub fn splitmix(x: &mut u64) -> u64 {
    *x = x.wrapping_add(0x9e3779b97f4a7c15);
    let mut z = *x;
    z = (z ^ (z >> 30)).wrapping_mul(0xbf58476d1ce4e5b9);
    z = (z ^ (z >> 27)).wrapping_mul(0x94d049bb133111eb);
    z ^ (z >> 31)
}

pub fn mix(seed: u64, prop: &str, run: u64) -> u64 {
    let mut h: u64 = 0xcbf29ce484222325 ^ seed;
    for b in prop.as_bytes() {
        h ^= *b as u64;
        h = h.wrapping_mul(0x100000001b3);
    }
    let mut x = h ^ run.wrapping_mul(0x9e3779b97f4a7c15);
    splitmix(&mut x)
}

impl Rng {
    pub fn new(seed: u64) -> Self {
        let mut x = seed;
        let s = [
            splitmix(&mut x),
            splitmix(&mut x),
            splitmix(&mut x),
            splitmix(&mut x),
        ];
        Rng { s }
    }
    pub fn next(&mut self) -> u64 {
        let r = self.s[1].wrapping_mul(5).rotate_left(7).wrapping_mul(9);
        let t = self.s[1] << 17;
        self.s[2] ^= self.s[0];
        self.s[3] ^= self.s[1];
        self.s[1] ^= self.s[2];
        self.s[0] ^= self.s[3];
        self.s[2] ^= t;
        self.s[3] = self.s[3].rotate_left(45);
        r
    }
    /// uniform in 0..n (n > 0)
    pub fn below(&mut self, n: u64) -> u64 {
        self.next() % n
    }
    pub fn range(&mut self, lo: u64, hi: u64) -> u64 {
        lo + self.below(hi - lo + 1)
    }
    pub fn chance(&mut self, num: u64, den: u64) -> bool {
        self.below(den) < num
    }
    pub fn pick<'a, T>(&mut self, xs: &'a [T]) -> &'a T {
        &xs[self.below(xs.len() as u64) as usize]
    }
    pub fn bytes(&mut self, n: usize) -> Vec<u8> {
        (0..n).map(|_| self.next() as u8).collect()
    }
    /// gas limit of a sub-message: mostly none, the boundary values, or anything in between
    pub fn gas_limit(&mut self) -> Option<u64> {
        match self.below(10) {
            0..=3 => None,
            4 => Some(0),
            5 => Some(1),
            6 => Some(u64::MAX),
            _ => Some(self.below(1_000_000)),
        }
    }
    pub fn word(&mut self) -> String {
        const W: [&str; 20] = [
            "ab", "cd", "xyz", "q", "lorem", "ipsum", "7up", "Zed", "a b", "é", "", "under_score",
            "quo\"te", "back\\slash", "new\nline", "tab\t", "\u{4e16}\u{754c}", "{\"json\":1}", "null", "ctl\u{1}",
        ];
        W[self.below(W.len() as u64) as usize].to_string()
    }
}
