//! Seeded scripts for general-purpose worlds: journals, failures, data, events and
//! (nested) calls to peers through the real helpers or as raw wasm messages.

use crate::monitor::reply::Table;
use crate::plan::Code;
use crate::rng::Rng;
use crate::values::{doc_for, gen_args, Pool};
use crate::world::ContractInfo;
use rt::script::{Msg, ReplyReq, Script, Send, Step};
use rt::spec::{HandlerSpec, Kind};
use serde_json::{json, Value};
use sylvia::cw_std::{Binary, Coin};

pub struct ScriptGen<'a> {
    pub reg: &'a crate::reg::Reg,
    pub contracts: &'a [ContractInfo],
    pub accounts: &'a [String],
    pub codes: &'a [Code],
    pub code_ids: &'a [u64],
    pub nonce: u64,
    pub max_depth: u32,
    /// per-mille chance that a script ends in a failure
    pub fail_pm: u64,
    /// per-mille chance of attaching funds to a nested call
    pub funds_pm: u64,
    /// percentage of nested calls built through the typed executor helper
    pub typed_pct: u64,
    /// percentage of typed calls to interface methods that go through a `dyn Interface` handle
    pub dyn_pct: u64,
    /// only call handlers with regular names
    pub regular_only: bool,
    pub queries: bool,
    /// per-mille chances of the rarer steps
    pub inst_pm: u64,
    pub admin_pm: u64,
    pub extra_msgs_pm: u64,
    pub reply_pm: u64,
    pub remote_pm: u64,
    /// nested calls carry gas limits
    pub gas_limits: bool,
    /// per-mille chance that a script panics
    pub panic_pm: u64,
}

impl<'a> ScriptGen<'a> {
    pub fn new(reg: &'a crate::reg::Reg, contracts: &'a [ContractInfo], accounts: &'a [String]) -> Self {
        ScriptGen {
            reg,
            contracts,
            accounts,
            codes: &[],
            code_ids: &[],
            nonce: 0,
            max_depth: 3,
            fail_pm: 150,
            funds_pm: 200,
            typed_pct: 60,
            dyn_pct: 40,
            regular_only: true,
            queries: true,
            inst_pm: 0,
            admin_pm: 0,
            extra_msgs_pm: 0,
            reply_pm: 0,
            remote_pm: 0,
            gas_limits: false,
            panic_pm: 3,
        }
    }

    pub fn nonce(&mut self) -> u64 {
        self.nonce += 1;
        self.nonce
    }

    pub fn pool_addrs(&self) -> Vec<String> {
        let mut v: Vec<String> = self.accounts.to_vec();
        v.extend(self.contracts.iter().map(|c| c.addr.clone()));
        v
    }

    /// a reply request the contract type `owner_cid` can serve (or a hand-made one)
    fn reply_req(&mut self, rng: &mut Rng, owner_cid: &str, depth: u32) -> ReplyReq {
        if !rng.chance(self.reply_pm, 1000) {
            return ReplyReq::None;
        }
        let rs = if depth < self.max_depth && rng.chance(1, 3) {
            json!([{"journal": {"tag": format!("rp{}", self.nonce())}}])
        } else {
            json!([])
        };
        // (very rarely a payload far beyond anything ordinary)
        let pad = if rng.chance(1, 150) { "x".repeat(140_000) } else { String::new() };
        let payload = Binary::from(serde_json::to_vec(&if pad.is_empty() { json!({"nonce": self.nonce(), "script": rs}) } else { json!({"nonce": self.nonce(), "script": rs, "pad": pad}) }).unwrap());
        let has_alw = self
            .reg
            .get(owner_cid)
            .map(|e| e.spec.replies_feature && Table::of(e).names.contains_key("alw"))
            .unwrap_or(false);
        if has_alw && rng.chance(2, 3) {
            ReplyReq::Handler { name: "alw".into(), payload, recv: *rng.pick(&[0u8, 2, 3, 6, 9, 5]), pre: None }
        } else {
            ReplyReq::Raw { id: rng.below(3), on: rng.below(4) as u8, payload }
        }
    }

    pub fn script(&mut self, rng: &mut Rng, owner_cid: &str, depth: u32) -> Script {
        let mut steps = vec![];
        let n = rng.below(4);
        for _ in 0..n {
            match rng.below(10) {
                0 | 1 | 2 => steps.push(Step::Journal { tag: format!("j{}", self.nonce()) }),
                3 => {
                    let n = rng.below(6) as usize;
                    steps.push(Step::SetData { data: Binary::from(rng.bytes(n)) })
                }
                4 => steps.push(Step::Attr { k: format!("k{}", rng.below(3)), v: rng.word() }),
                5 => {
                    // mostly plain events; now and then one the chain itself will have words about
                    // (a type of one character, the chain's own `wasm`, a reserved key)
                    let (ty, k) = match rng.below(12) {
                        0 => ("e".to_string(), "n".to_string()),
                        1 => ("wasm".to_string(), "n".to_string()),
                        2 => (format!("e{}", rng.below(3)), "_n".to_string()),
                        3 => ("wasm-e".to_string(), format!("k{}", rng.below(3))),
                        4 | 5 => (format!("bare{}", rng.below(3)), String::new()),
                        _ => (format!("e{}", rng.below(3)), "n".to_string()),
                    };
                    steps.push(Step::Event { ty, k, v: self.nonce().to_string() })
                }
                6 | 7 | 8 => {
                    if depth < self.max_depth && !self.contracts.is_empty() {
                        if let Some(s) = self.send_exec(rng, owner_cid, depth) {
                            steps.push(Step::Send(s));
                        }
                    }
                }
                _ => {
                    if self.queries && !self.contracts.is_empty() {
                        if let Some(q) = self.query_step(rng) {
                            steps.push(q);
                        }
                    }
                }
            }
        }
        if depth < self.max_depth && rng.chance(self.inst_pm, 1000) {
            if let Some(s) = self.send_inst(rng, owner_cid, depth) {
                steps.push(Step::Send(s));
            }
        }
        if rng.chance(self.admin_pm, 1000) && !self.contracts.is_empty() {
            let peer = rng.pick(self.contracts).clone();
            let msg = if rng.chance(2, 3) {
                // (any string is an address as far as the helper is concerned, the empty one included)
                Msg::UpdateAdmin { peer: peer.addr.clone(), ty: peer.cid.clone(), admin: if rng.chance(1, 8) { String::new() } else { rng.pick(&self.pool_addrs()).clone() } }
            } else {
                Msg::ClearAdmin { peer: peer.addr.clone(), ty: peer.cid.clone() }
            };
            steps.push(Step::Send(Send { msg, reply: ReplyReq::None, gas_limit: None }));
        }
        if rng.chance(self.extra_msgs_pm, 1000) {
            let k = rng.range(1, 3);
            for _ in 0..k {
                let msg = match rng.below(6) {
                    0 | 1 => Msg::Bank { to: rng.pick(&self.pool_addrs()).clone(), amount: vec![Coin::new(rng.below(4) as u128, "ucoin")] },
                    2 | 3 => Msg::Custom { tag: format!("t{}", self.nonce()) },
                    _ => Msg::Other { which: rng.below(6) as u8 },
                };
                let reply = self.reply_req(rng, owner_cid, depth);
                let gas_limit = rng.gas_limit();
                steps.push(Step::Send(Send { msg, reply, gas_limit }));
            }
        }
        if rng.chance(self.remote_pm, 1000) && !self.contracts.is_empty() {
            steps.extend(self.remote_steps(rng, depth));
        }
        // the very same sub-message twice in a row
        if rng.chance(1, 12) {
            if let Some(i) = steps.iter().rposition(|s| matches!(s, Step::Send(s) if matches!(s.msg, Msg::Bank { .. } | Msg::Other { .. }))) {
                let dup = steps[i].clone();
                steps.insert(i, dup);
            }
        }
        if rng.chance(self.fail_pm, 1000) {
            let at = rng.below(steps.len() as u64 + 1) as usize;
            steps.insert(at, Step::Fail { code: rng.below(100_000) as u32 });
        }
        // very rarely the handler panics outright
        if rng.chance(self.panic_pm, 1000) {
            let at = rng.below(steps.len() as u64 + 1) as usize;
            steps.insert(at, Step::Panic { tag: format!("p{}", self.nonce()) });
        }
        Script(steps)
    }

    fn pick_handler(&self, rng: &mut Rng, c: &ContractInfo, kind: Kind) -> Option<&'a HandlerSpec> {
        let e = self.reg.get(&c.cid)?;
        if e.spec.overrides.contains(&kind) {
            return None;
        }
        let hs: Vec<&HandlerSpec> = e
            .spec
            .of_kind(kind)
            .filter(|h| !self.regular_only || h.regular)
            .collect();
        if hs.is_empty() {
            None
        } else {
            Some(*rng.pick(&hs))
        }
    }

    /// arguments for a handler of contract type `cid`, with a nested script where it takes one
    pub fn args_for(&mut self, rng: &mut Rng, cid: &str, h: &HandlerSpec, depth: u32) -> serde_json::Map<String, Value> {
        let addrs = self.pool_addrs();
        let script = if h.args.iter().any(|a| a.ty == "Script") && h.kind != Kind::Query {
            Some(serde_json::to_value(self.script(rng, cid, depth + 1)).unwrap())
        } else if h.args.iter().any(|a| a.ty == "Script") && self.queries && !self.contracts.is_empty() {
            // a query handler that takes a script relays its queries: nested queries, at most two
            // levels below the first one
            let qdepth = if depth >= 90 { depth - 90 } else { 0 };
            let mut steps = vec![];
            if qdepth < 2 {
                for _ in 0..rng.below(3) {
                    if let Some(q) = self.query_step_at(rng, 90 + qdepth + 1) {
                        steps.push(q);
                    }
                }
                if rng.chance(self.fail_pm, 3000) {
                    steps.push(Step::Fail { code: rng.below(100_000) as u32 });
                }
            }
            Some(serde_json::to_value(Script(steps)).unwrap())
        } else {
            None
        };
        let pool = Pool { addrs: &addrs };
        gen_args(rng, h.args, &pool, script)
    }

    /// the type under which a typed helper addresses `h` of `peer`: the concrete contract type,
    /// or (for interface methods) a `dyn Interface` handle type
    fn handle_ty(&self, rng: &mut Rng, peer: &ContractInfo, h: &HandlerSpec) -> String {
        if !h.part.is_empty() && rng.below(100) < self.dyn_pct {
            if let Some(p) = self.reg.get(&peer.cid).and_then(|e| e.spec.parts.iter().find(|p| p.name == h.part)) {
                if !p.dyn_ty.is_empty() && rt::registry::get(p.dyn_ty).is_some() {
                    return p.dyn_ty.to_string();
                }
            }
        }
        peer.cid.clone()
    }

    pub fn send_exec(&mut self, rng: &mut Rng, owner_cid: &str, depth: u32) -> Option<Send> {
        let peer = rng.pick(self.contracts).clone();
        let h = self.pick_handler(rng, &peer, Kind::Exec)?;
        let args = self.args_for(rng, &peer.cid, h, depth);
        let funds = if rng.chance(self.funds_pm, 1000) {
            Some(vec![Coin::new(rng.below(30) as u128, "ucoin")])
        } else if rng.chance(1, 10) {
            Some(vec![])
        } else {
            None
        };
        let typed = rng.below(100) < self.typed_pct;
        let msg = if typed {
            Msg::Exec {
                peer: peer.addr.clone(),
                ty: self.handle_ty(rng, &peer, h),
                method: format!("{}:{}", h.part, h.fn_name),
                args: Binary::from(serde_json::to_vec(&Value::Object(args)).unwrap()),
                funds,
                form: rng.below(3) as u8 | if rng.chance(1, 4) { 0x10 } else { 0 },
                slot: None,
            }
        } else {
            Msg::Exec {
                peer: peer.addr.clone(),
                ty: String::new(),
                method: String::new(),
                args: Binary::from(serde_json::to_vec(&doc_for(h, &args)).unwrap()),
                funds,
                form: 0,
                slot: None,
            }
        };
        let reply = self.reply_req(rng, owner_cid, depth);
        Some(Send { msg, reply, gas_limit: if self.gas_limits { rng.gas_limit() } else { None } })
    }

    pub fn send_inst(&mut self, rng: &mut Rng, owner_cid: &str, depth: u32) -> Option<Send> {
        if self.codes.is_empty() {
            return None;
        }
        let code = rng.below(self.codes.len() as u64) as usize;
        let pe = self.reg.get(&self.codes[code].cid)?;
        if pe.spec.overrides.contains(&Kind::Instantiate) {
            return None;
        }
        let h = pe.spec.of_kind(Kind::Instantiate).next()?;
        let args = self.args_for(rng, pe.spec.cid, h, depth);
        let msg = Msg::Inst {
            code_id: *self.code_ids.get(code)?,
            ty: pe.spec.cid.to_string(),
            args: Binary::from(serde_json::to_vec(&Value::Object(args)).unwrap()),
            label: match rng.below(7) { 0 => None, 1 => Some(String::new()), 2 => Some(format!(" sub{} ", self.nonce())), 3 => Some(rng.pick(&[" ", "\t", "x\n", "  lead", "trail  "]).to_string()), _ => Some(format!("sub{}", self.nonce())) },
            admin: if rng.chance(1, 2) { Some(rng.pick(&self.pool_addrs()).clone()) } else { None },
            funds: match rng.below(4) { 0 => Some(vec![Coin::new(rng.below(20) as u128, "ucoin")]), 1 => Some(vec![]), _ => None },
            salt: if rng.chance(1, 3) { let n = rng.range(0, 6) as usize; Some(Binary::from(rng.bytes(n))) } else { None },
        };
        let reply = self.reply_req(rng, owner_cid, depth);
        Some(Send { msg, reply, gas_limit: if self.gas_limits { rng.gas_limit() } else { None } })
    }

    pub fn query_step(&mut self, rng: &mut Rng) -> Option<Step> {
        // (query depths are counted from 90: the query itself is level 1)
        self.query_step_at(rng, 91)
    }

    fn query_step_at(&mut self, rng: &mut Rng, depth: u32) -> Option<Step> {
        let peer = rng.pick(self.contracts).clone();
        let h = self.pick_handler(rng, &peer, Kind::Query)?;
        let args = self.args_for(rng, &peer.cid, h, depth);
        Some(Step::Query {
            peer: peer.addr.clone(),
            ty: self.handle_ty(rng, &peer, h),
            method: format!("{}:{}", h.part, h.fn_name),
            args: Binary::from(serde_json::to_vec(&Value::Object(args)).unwrap()),
            form: rng.below(3) as u8,
        })
    }

    /// every handle type under which `peer` can be addressed
    pub fn handle_types(&self, peer: &ContractInfo) -> Vec<String> {
        let mut v = vec![peer.cid.clone()];
        if let Some(e) = self.reg.get(&peer.cid) {
            for p in e.spec.parts {
                if !p.dyn_ty.is_empty() && rt::registry::get(p.dyn_ty).is_some() {
                    v.push(p.dyn_ty.to_string());
                }
            }
        }
        v
    }

    /// store / re-store / use remote handles (C20): the type parameter used to write a slot
    /// is unrelated to the one used to read it
    pub fn remote_steps(&mut self, rng: &mut Rng, depth: u32) -> Vec<Step> {
        let mut out = vec![];
        let slots = ["r0", "r1", "r2"];
        let peer = rng.pick(self.contracts).clone();
        let tys = self.handle_types(&peer);
        match rng.below(5) {
            0 | 1 => out.push(Step::SaveRemote { slot: rng.pick(&slots).to_string(), addr: peer.addr.clone(), ty: rng.pick(&tys).clone(), form: rng.below(2) as u8 }),
            4 => {
                // any string is an address as far as the handle is concerned
                const ODD: [&str; 15] = ["a", "7", "\u{e9}", "", "we\"ird", "back\\slash", "tab\there", "line\nbreak", "uni\u{e9}\u{4e16}", "ctl\u{1}x", "sp ace/colon:", "trail ", "nl\n", " lead", "nbsp\u{a0}"];
                let all: Vec<String> = rt::registry::all().into_iter().map(|(k, _)| k.clone()).collect();
                // also: long strings, and long strings that differ from one another in a single byte
                let addr = match rng.below(4) {
                    0 => rng.pick(&ODD).to_string(),
                    1 => "L".repeat(rng.range(80, 200) as usize) + &rng.below(10).to_string(),
                    _ => {
                        let mut b = vec![b'q'; rng.pick(&[33usize, 40, 64, 65]).to_owned()];
                        let i = rng.below(b.len() as u64) as usize;
                        b[i] = b'a' + rng.below(26) as u8;
                        String::from_utf8(b).unwrap()
                    }
                };
                for _ in 0..rng.range(1, 2) {
                    let slot = rng.pick(&slots).to_string();
                    let mut a = addr.clone().into_bytes();
                    if !a.is_empty() && rng.chance(1, 2) {
                        let i = rng.below(a.len() as u64) as usize;
                        if a[i].is_ascii_lowercase() {
                            a[i] = b'a' + rng.below(26) as u8;
                        }
                    }
                    out.push(Step::SaveRemote { slot: slot.clone(), addr: String::from_utf8(a).unwrap_or_default(), ty: rng.pick(&all).clone(), form: rng.below(2) as u8 });
                    out.push(Step::Resave { slot, to: rng.pick(&slots).to_string(), ty: rng.pick(&all).clone() });
                }
            }
            2 => {
                // any registered handle type may read any slot
                let all: Vec<String> = rt::registry::all().into_iter().map(|(k, _)| k.clone()).collect();
                out.push(Step::Resave { slot: rng.pick(&slots).to_string(), to: rng.pick(&slots).to_string(), ty: rng.pick(&all).clone() })
            }
            _ => {
                // call through a stored handle: the slot was (maybe) written earlier for this peer
                if let Some(h) = self.pick_handler(rng, &peer, Kind::Exec) {
                    let args = self.args_for(rng, &peer.cid, h, depth);
                    let slot = rng.pick(&slots).to_string();
                    out.push(Step::SaveRemote { slot: slot.clone(), addr: peer.addr.clone(), ty: rng.pick(&tys).clone(), form: rng.below(2) as u8 });
                    out.push(Step::Send(Send {
                        msg: Msg::Exec { peer: peer.addr.clone(), ty: self.handle_ty(rng, &peer, h), method: format!("{}:{}", h.part, h.fn_name), args: Binary::from(serde_json::to_vec(&Value::Object(args)).unwrap()), funds: None, form: 3, slot: Some(slot) },
                        reply: ReplyReq::None,
                        gas_limit: None,
                    }));
                }
            }
        }
        out
    }
}
