//! Seeded scripts for general-purpose worlds: journals, failures, data, events and
//! (nested) calls to peers through the real helpers or as raw wasm messages.

use crate::rng::Rng;
use crate::values::{doc_for, gen_args, Pool};
use crate::world::ContractInfo;
use rt::script::{Msg, ReplyReq, Script, Send, Step};
use rt::spec::{HandlerSpec, Kind};
use serde_json::Value;
use sylvia::cw_std::{Binary, Coin};

pub struct ScriptGen<'a> {
    pub reg: &'a crate::reg::Reg,
    pub contracts: &'a [ContractInfo],
    pub accounts: &'a [String],
    pub nonce: u64,
    pub max_depth: u32,
    /// per-mille chance that a script ends in a failure
    pub fail_pm: u64,
    /// per-mille chance of attaching funds to a nested call
    pub funds_pm: u64,
    /// percentage of nested calls built through the typed executor helper
    pub typed_pct: u64,
    /// only call handlers with regular names
    pub regular_only: bool,
    pub queries: bool,
}

impl<'a> ScriptGen<'a> {
    pub fn new(reg: &'a crate::reg::Reg, contracts: &'a [ContractInfo], accounts: &'a [String]) -> Self {
        ScriptGen {
            reg,
            contracts,
            accounts,
            nonce: 0,
            max_depth: 3,
            fail_pm: 150,
            funds_pm: 200,
            typed_pct: 60,
            regular_only: true,
            queries: true,
        }
    }

    pub fn nonce(&mut self) -> u64 {
        self.nonce += 1;
        self.nonce
    }

    pub fn pool_addrs(&self) -> Vec<String> {
        let mut v: Vec<String> = self.accounts.to_vec();
        v.extend(self.contracts.iter().map(|c| c.addr.clone()));
        v
    }

    pub fn script(&mut self, rng: &mut Rng, depth: u32) -> Script {
        let mut steps = vec![];
        let n = rng.below(4);
        for _ in 0..n {
            match rng.below(10) {
                0 | 1 | 2 => steps.push(Step::Journal { tag: format!("j{}", self.nonce()) }),
                3 => {
                    let n = rng.below(6) as usize;
                    steps.push(Step::SetData { data: Binary::from(rng.bytes(n)) })
                }
                4 => steps.push(Step::Attr { k: format!("k{}", rng.below(3)), v: rng.word() }),
                5 => steps.push(Step::Event { ty: format!("e{}", rng.below(3)), k: "n".into(), v: self.nonce().to_string() }),
                6 | 7 | 8 => {
                    if depth < self.max_depth && !self.contracts.is_empty() {
                        if let Some(s) = self.send_exec(rng, depth) {
                            steps.push(Step::Send(s));
                        }
                    }
                }
                _ => {
                    if self.queries && !self.contracts.is_empty() {
                        if let Some(q) = self.query_step(rng) {
                            steps.push(q);
                        }
                    }
                }
            }
        }
        if rng.chance(self.fail_pm, 1000) {
            let at = rng.below(steps.len() as u64 + 1) as usize;
            steps.insert(at, Step::Fail { code: rng.below(100_000) as u32 });
        }
        Script(steps)
    }

    fn pick_handler(&self, rng: &mut Rng, c: &ContractInfo, kind: Kind) -> Option<&'a HandlerSpec> {
        let e = self.reg.get(&c.cid)?;
        if e.spec.overrides.contains(&kind) {
            return None;
        }
        let hs: Vec<&HandlerSpec> = e
            .spec
            .of_kind(kind)
            .filter(|h| !self.regular_only || h.regular)
            .collect();
        if hs.is_empty() {
            None
        } else {
            Some(*rng.pick(&hs))
        }
    }

    /// arguments for a handler, with a nested script where it takes one
    pub fn args_for(&mut self, rng: &mut Rng, h: &HandlerSpec, depth: u32) -> serde_json::Map<String, Value> {
        let addrs = self.pool_addrs();
        let script = if h.args.iter().any(|a| a.ty == "Script") && h.kind != Kind::Query {
            Some(serde_json::to_value(self.script(rng, depth + 1)).unwrap())
        } else {
            None
        };
        let pool = Pool { addrs: &addrs };
        gen_args(rng, h.args, &pool, script)
    }

    pub fn send_exec(&mut self, rng: &mut Rng, depth: u32) -> Option<Send> {
        let peer = rng.pick(self.contracts).clone();
        let h = self.pick_handler(rng, &peer, Kind::Exec)?;
        let args = self.args_for(rng, h, depth);
        let funds = if rng.chance(self.funds_pm, 1000) {
            Some(vec![Coin::new(rng.below(30) as u128, "ucoin")])
        } else if rng.chance(1, 10) {
            Some(vec![])
        } else {
            None
        };
        let typed = rng.below(100) < self.typed_pct;
        let msg = if typed {
            Msg::Exec {
                peer: peer.addr.clone(),
                ty: peer.cid.clone(),
                method: format!("{}:{}", h.part, h.fn_name),
                args: Binary::from(serde_json::to_vec(&Value::Object(args)).unwrap()),
                funds,
                form: rng.below(3) as u8,
                slot: None,
            }
        } else {
            Msg::Exec {
                peer: peer.addr.clone(),
                ty: String::new(),
                method: String::new(),
                args: Binary::from(serde_json::to_vec(&doc_for(h, &args)).unwrap()),
                funds,
                form: 0,
                slot: None,
            }
        };
        Some(Send { msg, reply: ReplyReq::None, gas_limit: None })
    }

    pub fn query_step(&mut self, rng: &mut Rng) -> Option<Step> {
        let peer = rng.pick(self.contracts).clone();
        let h = self.pick_handler(rng, &peer, Kind::Query)?;
        let args = self.args_for(rng, h, 99);
        Some(Step::Query {
            peer: peer.addr.clone(),
            ty: peer.cid.clone(),
            method: format!("{}:{}", h.part, h.fn_name),
            args: Binary::from(serde_json::to_vec(&Value::Object(args)).unwrap()),
            form: rng.below(3) as u8,
        })
    }
}
