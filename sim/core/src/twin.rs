//! Twin-world executor (C12, C06): every op runs on world 0 and then on world 1.
//!
//! * C12: world 0 stores codes through sylvia's `CodeId::store_code` and is driven only through
//!   generated proxies (`Op::Twin`); world 1 stores the same programs behind fault links and is
//!   driven only with JSON text composed from the SPEC.
//! * C06: both worlds are driven by the same raw ops; world 0 deploys the generated entry
//!   points (`codes`), world 1 the reference deployment (`codes1`).

use crate::plan::{Doc, Op, Plan, Twin};
use crate::reg::Reg;
use crate::values::doc_for;
use crate::world::{guarded, OpRecord, Outcome, RunRecord, World};
use rt::bb;
use std::collections::BTreeMap;

pub const FLAVOUR_PROXY: u8 = 2;

/// the raw operation the property prescribes for a proxy call
pub fn raw_of(t: &Twin, w1: &World, reg: &Reg) -> Op {
    let args = t.args.as_object().cloned().unwrap_or_default();
    if t.hid == "instantiate" {
        let cid = w1.codes.get(t.code).map(|c| c.cid.clone()).unwrap_or_default();
        let h = reg.get(&cid).and_then(|e| e.spec.of_kind(rt::spec::Kind::Instantiate).next());
        let msg = match h {
            Some(h) => Doc::json(&doc_for(h, &args)),
            None => Doc::json(&t.args),
        };
        return Op::Instantiate {
            code: t.code,
            sender: t.sender.clone(),
            msg,
            // the label a proxy uses when none is set is mirrored, not asserted
            label: t.label.clone().unwrap_or_else(|| "Contract".to_string()),
            admin: t.admin.clone(),
            funds: t.funds.clone().unwrap_or_default(),
            salt: t.salt.clone(),
            intent: None,
        };
    }
    let target = w1.contracts.get(t.slot).map(|c| c.addr.clone()).unwrap_or_else(|| "nowhere".into());
    let cid = w1.contracts.get(t.slot).map(|c| c.cid.clone()).unwrap_or_default();
    let kind = t.hid.split(':').next().unwrap_or("");
    // a migrate message belongs to the *new* code
    let spec_cid = if kind == "migrate" {
        w1.codes.get(t.code).map(|c| c.cid.clone()).unwrap_or(cid)
    } else {
        cid
    };
    let h = reg.get(&spec_cid).and_then(|e| e.spec.handler(&t.hid));
    let msg = match h {
        Some(h) => Doc::json(&doc_for(h, &args)),
        None => Doc::json(&t.args),
    };
    match kind {
        "execute" => Op::Exec { target, sender: t.sender.clone(), msg, funds: t.funds.clone().unwrap_or_default(), intent: None },
        "query" => Op::Query { target, msg, intent: None },
        "sudo" => Op::Sudo { target, msg, intent: None },
        _ => Op::Migrate { target, sender: t.sender.clone(), code: t.code, msg, intent: None },
    }
}

pub fn execute_twin(plan: &Plan, reg: &Reg) -> RunRecord {
    let mut w0 = World::new(reg, plan.custom_chain, &plan.accounts);
    let mut w1 = World::new(reg, plan.custom_chain, &plan.accounts);
    // proxies against the underlying test chain: the raw world's clock is moved by that chain itself
    w1.raw_block = plan.codes.iter().any(|c| c.flavour == FLAVOUR_PROXY);
    let mut harness_error = None;
    bb::set_world(0);
    for c in &plan.codes {
        let r = if c.flavour == FLAVOUR_PROXY { w0.store_via_proxy(c) } else { w0.store(c) };
        if let Err(e) = r {
            harness_error = Some(format!("world 0 store {}: {}", c.cid, e));
        }
    }
    bb::set_world(1);
    for c in &plan.codes1 {
        if let Err(e) = w1.store(c) {
            harness_error = Some(format!("world 1 store {}: {}", c.cid, e));
        }
    }
    // (differing code ids are the twin monitor's to judge: storing is part of what is compared)
    let mut recs = vec![];
    let all: Vec<(bool, &Op)> = plan.setup.iter().map(|o| (true, o)).chain(plan.ops.iter().map(|o| (false, o))).collect();
    for (i, (setup, op)) in all.into_iter().enumerate() {
        bb::begin_op(i as u32);
        // ---- world 0
        bb::set_world(0);
        let outcome = match op {
            Op::Twin(t) => w0.proxy_apply(t),
            other => match guarded(|| w0.apply(other)) {
                Ok(o) => o,
                Err(p) => Outcome::Panic(p),
            },
        };
        // ---- world 1
        bb::set_world(1);
        bb::with(|s| s.ord = 0);
        let outcome1 = match op {
            Op::Twin(t) => {
                let raw = raw_of(t, &w1, reg);
                match guarded(|| w1.apply(&raw)) {
                    Ok(o) => o,
                    Err(p) => Outcome::Panic(p),
                }
            }
            other => match guarded(|| w1.apply(other)) {
                Ok(o) => o,
                Err(p) => Outcome::Panic(p),
            },
        };
        let events = bb::take_events();
        w0.discover_from(&events, 0);
        w1.discover_from(&events, 1);
        // the proxy world has no link to learn about contracts created by scripts: mirror them
        for c in w1.contracts.clone() {
            if !w0.contracts.iter().any(|x| x.addr == c.addr) {
                w0.contracts.push(c);
            }
        }
        let state = guarded(|| w0.state()).unwrap_or_default();
        let state1 = guarded(|| w1.state()).unwrap_or_default();
        recs.push(OpRecord {
            idx: i as u32,
            setup,
            events,
            outcome,
            outcome1: Some(outcome1),
            state,
            state1: Some(state1),
            block: w0.block(),
        });
    }
    bb::set_world(0);
    RunRecord {
        contracts: w0.contracts.clone(),
        contracts1: w1.contracts.clone(),
        code_ids: w1.code_ids.clone(),
        code_ids0: w0.code_ids.clone(),
        accounts: w1.accounts.clone(),
        ops: recs,
        fired: bb::with(|s| s.fired.clone()),
        harness_error,
    }
}
