//! Twin-world executor (C12, C06): every op runs on world 0 and on world 1.
use crate::plan::Plan;
use crate::reg::Reg;
use crate::world::RunRecord;
use std::collections::BTreeMap;

pub fn execute_twin(_plan: &Plan, _reg: &Reg) -> RunRecord {
    RunRecord {
        contracts: vec![],
        contracts1: vec![],
        code_ids: vec![],
        accounts: vec![],
        ops: vec![],
        fired: BTreeMap::new(),
        harness_error: Some("twin runs not built yet".to_string()),
    }
}
