//! Deterministic simulation of sylvia-generated contracts on a cw-multi-test chain.
pub mod cli;
pub mod driver;
pub mod monitor;
pub mod plan;
pub mod profile;
pub mod reg;
pub mod rng;
pub mod scripts;
pub mod twin;
pub mod values;
pub mod world;

use profile::Profile;

/// which profiles decide which property, with their share of the run budget
pub fn profiles(prop: &str) -> Vec<(Box<dyn Profile>, u64)> {
    match prop {
        "C02" => vec![(Box::new(profile::f1::Dispatch), 3), (Box::new(profile::f5::CustomChain { prop: "C02" }), 1)],
        "C03" => vec![(Box::new(profile::f1::WireFaults), 1)],
        "C04" => vec![(Box::new(profile::f1::Misdeliver), 1)],
        "C10" => vec![(Box::new(profile::remotes::Remotes), 1)],
        "C11" => vec![(Box::new(profile::f5::CustomChain { prop: "C11" }), 1)],
        "C20" => vec![(Box::new(profile::remotes::StoredHandles), 1)],
        "C12" => vec![(Box::new(profile::twin::ProxyTwin), 1)],
        "C06" => vec![(Box::new(profile::f2::EntryPointTwin), 1)],
        "C07" => vec![(Box::new(profile::f3::F3 { prop: "C07" }), 1)],
        "C08" => vec![(Box::new(profile::f3::F3 { prop: "C08" }), 1)],
        "C09" => vec![(Box::new(profile::f3::F3 { prop: "C09" }), 1)],
        _ => vec![],
    }
}
