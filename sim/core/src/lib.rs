//! Deterministic simulation of sylvia-generated contracts on a cw-multi-test chain.
pub mod cli;
pub mod driver;
pub mod monitor;
pub mod plan;
pub mod profile;
pub mod reg;
pub mod rng;
pub mod scripts;
pub mod twin;
pub mod values;
pub mod world;

use profile::Profile;
use std::sync::atomic::{AtomicU64, Ordering};

/// size knobs of the tier: the thorough tier draws longer histories, more contracts, deeper nesting
static SCALE: AtomicU64 = AtomicU64::new(1);
pub fn set_scale(s: u64) {
    SCALE.store(s.max(1), Ordering::Relaxed)
}
pub fn scale() -> u64 {
    SCALE.load(Ordering::Relaxed)
}
pub fn extra_contracts() -> u64 {
    if scale() > 1 { 2 } else { 0 }
}
pub fn extra_depth() -> u64 {
    if scale() > 1 { 1 } else { 0 }
}

/// native stack of every thread that runs simulated chains
pub const STACK_BYTES: usize = 512 << 20;

/// one run in this many is a long history against a single part of a single contract
pub const LONG_RUN_ONE_IN: u64 = 120;

/// which profiles decide which property, with their share of the run budget
pub fn profiles(prop: &str) -> Vec<(Box<dyn Profile>, u64)> {
    match prop {
        "C02" => vec![(Box::new(profile::f1::Dispatch), 3), (Box::new(profile::f5::CustomChain { prop: "C02", spelled_empty: false }), 1)],
        "C03" => vec![(Box::new(profile::f1::WireFaults), 1)],
        "C04" => vec![(Box::new(profile::f1::Misdeliver { custom: false }), 3), (Box::new(profile::f1::Misdeliver { custom: true }), 1)],
        "C10" => vec![(Box::new(profile::remotes::Remotes), 1)],
        "C11" => vec![(Box::new(profile::f5::CustomChain { prop: "C11", spelled_empty: false }), 4), (Box::new(profile::f5::CustomChain { prop: "C11", spelled_empty: true }), 1)],
        "C20" => vec![(Box::new(profile::remotes::StoredHandles), 1)],
        "C12" => vec![(Box::new(profile::twin::ProxyTwin { custom_chain: false }), 3), (Box::new(profile::twin::ProxyTwin { custom_chain: true }), 1)],
        "C06" => vec![(Box::new(profile::f2::EntryPointTwin), 3), (Box::new(profile::f3::ReplyTwin), 1)],
        "C07" => vec![(Box::new(profile::f3::F3 { prop: "C07" }), 1)],
        "C08" => vec![(Box::new(profile::f3::F3 { prop: "C08" }), 1)],
        "C09" => vec![(Box::new(profile::f3::F3 { prop: "C09" }), 1)],
        _ => vec![],
    }
}
