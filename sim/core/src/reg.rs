//! The corpus as seen by the simulator: entries by contract type id.
use rt::spec::Entry;
use std::collections::BTreeMap;

pub struct Reg {
    pub entries: Vec<Entry>,
    idx: BTreeMap<String, usize>,
}

impl Reg {
    pub fn new(entries: Vec<Entry>, dyn_peers: Vec<(&'static str, rt::registry::PeerFns)>) -> Reg {
        let idx = entries
            .iter()
            .enumerate()
            .map(|(i, e)| (e.spec.cid.to_string(), i))
            .collect();
        // typed helper glue for scripts
        let mut peers = BTreeMap::new();
        for e in &entries {
            if let Some(p) = e.peer {
                peers.insert(e.spec.cid.to_string(), p);
            }
        }
        for (k, p) in dyn_peers {
            peers.insert(k.to_string(), p);
        }
        rt::registry::install(peers);
        Reg { entries, idx }
    }
    pub fn get(&self, cid: &str) -> Option<&Entry> {
        self.idx.get(cid).map(|i| &self.entries[*i])
    }
    pub fn family(&self, f: &str) -> Vec<&Entry> {
        self.entries.iter().filter(|e| e.spec.family == f).collect()
    }
    pub fn tagged(&self, t: &str) -> Vec<&Entry> {
        self.entries.iter().filter(|e| e.spec.has_tag(t)).collect()
    }
}
