//! The explicit description of one simulated run: world, operations, fault plan.
//! A run is a pure function of this value and the code; generation draws it from the seed.

use rt::bb::Fault;
use serde::{Deserialize, Serialize};
use serde_json::Value;
use sylvia::cw_std::{Binary, Coin};

/// document bytes; printed as text when UTF-8
#[derive(Clone, Debug, PartialEq)]
pub struct Doc(pub Vec<u8>);

impl Doc {
    pub fn text(s: impl Into<String>) -> Doc {
        Doc(s.into().into_bytes())
    }
    pub fn json(v: &Value) -> Doc {
        Doc(serde_json::to_vec(v).unwrap())
    }
    pub fn lossy(&self) -> String {
        String::from_utf8_lossy(&self.0).to_string()
    }
}

impl Serialize for Doc {
    fn serialize<S: serde::Serializer>(&self, s: S) -> Result<S::Ok, S::Error> {
        match std::str::from_utf8(&self.0) {
            Ok(t) => s.serialize_str(t),
            Err(_) => {
                use serde::ser::SerializeMap;
                let mut m = s.serialize_map(Some(1))?;
                m.serialize_entry("b64", &Binary::from(self.0.clone()).to_base64())?;
                m.end()
            }
        }
    }
}

impl<'de> Deserialize<'de> for Doc {
    fn deserialize<D: serde::Deserializer<'de>>(d: D) -> Result<Self, D::Error> {
        let v = Value::deserialize(d)?;
        match v {
            Value::String(s) => Ok(Doc(s.into_bytes())),
            Value::Object(m) => {
                let b = m
                    .get("b64")
                    .and_then(|x| x.as_str())
                    .ok_or_else(|| serde::de::Error::custom("doc: expected b64"))?;
                Binary::from_base64(b)
                    .map(|b| Doc(b.to_vec()))
                    .map_err(serde::de::Error::custom)
            }
            _ => Err(serde::de::Error::custom("doc: expected string or {b64}")),
        }
    }
}

/// what a spec-built document was meant to reach
#[derive(Serialize, Deserialize, Clone, Debug, PartialEq)]
pub struct Intent {
    pub hid: String,
    pub args: Value,
    /// the program the document was built for ("" = whatever lives there)
    #[serde(default)]
    pub cid: String,
}

#[derive(Serialize, Deserialize, Clone, Debug, PartialEq)]
#[serde(rename_all = "snake_case")]
pub enum Op {
    Exec {
        target: String,
        sender: String,
        msg: Doc,
        funds: Vec<Coin>,
        intent: Option<Intent>,
    },
    Query {
        target: String,
        msg: Doc,
        intent: Option<Intent>,
    },
    Sudo {
        target: String,
        msg: Doc,
        intent: Option<Intent>,
    },
    Instantiate {
        code: usize,
        sender: String,
        msg: Doc,
        label: String,
        admin: Option<String>,
        funds: Vec<Coin>,
        salt: Option<Doc>,
        intent: Option<Intent>,
    },
    Migrate {
        target: String,
        sender: String,
        code: usize,
        msg: Doc,
        intent: Option<Intent>,
    },
    Block {
        dh: u64,
        dt: u64,
    },
    Poke {
        target: String,
        key: String,
        val: Doc,
    },
    /// a call through the generated multitest proxies (world 0) mirrored by raw JSON (world 1)
    Twin(Twin),
}

#[derive(Serialize, Deserialize, Clone, Debug, PartialEq)]
pub struct Twin {
    /// "instantiate" | handler id
    pub hid: String,
    /// index into codes (instantiate / migrate target code)
    pub code: usize,
    /// contract slot (index into the list of instantiated contracts, both worlds)
    pub slot: usize,
    pub sender: String,
    pub args: Value,
    pub funds: Option<Vec<Coin>>,
    pub label: Option<String>,
    pub admin: Option<String>,
    pub salt: Option<Doc>,
}

#[derive(Serialize, Deserialize, Clone, Debug, PartialEq)]
pub struct Code {
    pub cid: String,
    pub flavour: u8,
}

#[derive(Serialize, Deserialize, Clone, Debug, PartialEq)]
pub struct Plan {
    pub property: String,
    pub profile: String,
    pub seed: u64,
    pub run: u64,
    pub custom_chain: bool,
    /// bech32 prefix of the chain's addresses
    #[serde(default = "default_prefix")]
    pub prefix: String,
    /// twin-world run (C12 / C06): ops are mirrored in world 1
    pub twin: bool,
    pub accounts: Vec<(String, Vec<Coin>)>,
    pub codes: Vec<Code>,
    /// flavour / code list of world 1 in twin runs (same cids)
    pub codes1: Vec<Code>,
    pub setup: Vec<Op>,
    pub ops: Vec<Op>,
    pub faults: Vec<((u32, u32), Fault)>,
}

pub fn default_prefix() -> String {
    "cosmwasm".to_string()
}

impl Plan {
    pub fn n_ops(&self) -> usize {
        self.setup.len() + self.ops.len()
    }
}
