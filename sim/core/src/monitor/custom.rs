//! C11: bridging an interface written for the empty custom types into a contract on a chain
//! with custom message / query types preserves the response and the call.

use super::{deliveries, walk, Cells, Delivery, Finding};
use crate::reg::Reg;
use crate::world::RunRecord;
use serde_json::Value;

fn msg_variants(resp: &Value) -> Vec<String> {
    let mut v: Vec<String> = resp["messages"]
        .as_array()
        .map(|ms| {
            ms.iter()
                .filter_map(|m| m["msg"].as_object().and_then(|o| o.keys().next().cloned()))
                .collect()
        })
        .unwrap_or_default();
    v.sort();
    v.dedup();
    v
}

fn has_custom(resp: &Value) -> bool {
    resp["messages"]
        .as_array()
        .map(|ms| ms.iter().any(|m| m["msg"].get("custom").is_some()))
        .unwrap_or(false)
}

pub fn check(rec: &RunRecord, reg: &Reg, cells: &mut Cells) -> Vec<Finding> {
    let mut out = vec![];
    for op in &rec.ops {
        let (ds, _) = deliveries(&op.events, 0);
        walk(&ds, &mut |d: &Delivery| {
            let Some(e) = reg.get(d.cid()) else { return };
            // (contracts on the custom chain, and contracts that spell out the empty custom types
            // and bridge an interface into them)
            if !e.spec.custom_chain && !e.spec.parts.iter().any(|p| p.custom_msg || p.custom_query) {
                return;
            }
            let enters = d.enters();
            if enters.len() != 1 {
                return;
            }
            let (hid, _, ectx) = enters[0];
            let Some(h) = e.spec.handler(hid) else { return };
            let Some(part) = e.spec.parts.iter().find(|p| p.name == h.part) else { return };
            let bridged = part.custom_msg || part.custom_query;
            let kind = match (part.name.is_empty(), part.custom_msg, part.custom_query) {
                (true, _, _) => "native_own",
                (false, true, true) => "custom_msg_query",
                (false, true, false) => "custom_msg",
                (false, false, true) => "custom_query",
                (false, false, false) => "native_iface",
            };
            let Some((_, ex)) = d.exits().into_iter().find(|x| x.0 == hid) else { return };
            let res = d.result();
            if let Some(okv) = ex.get("ok") {
                let vs = msg_variants(okv);
                for v in &vs {
                    cells.hit(format!("c11.msg_variant|{}|{}", if bridged { "bridged" } else { "native" }, v));
                }
                cells.hit(format!("c11|{}|{}|{}", kind, d.entry(), if d.entry() == "query" { "value".to_string() } else if vs.is_empty() { "no_messages".to_string() } else if has_custom(okv) { "with_custom".to_string() } else { "messages".to_string() }));
            } else {
                cells.hit(format!("c11|{}|{}|handler_err", kind, d.entry()));
            }
            if !bridged {
                return;
            }
            // same storage, environment and sender as the chain delivered
            if ectx != d.ctx() {
                out.push(Finding::new("C11", "c11.ctx", op.idx, format!("{}: bridged handler {} saw context {} but the chain delivered {}", d.cid(), hid, ectx, d.ctx())));
            }
            if d.entry() == "query" || !part.custom_msg {
                return;
            }
            let Some(resp) = ex.get("ok") else { return };
            if has_custom(resp) {
                cells.hit("c11.custom_in_empty_response");
                if res.get("err").is_none() {
                    out.push(Finding::new("C11", "c11.custom_not_rejected", op.idx, format!("{}: {} returned a response with a custom-typed message, the bridge must fail; the chain received {}", d.cid(), hid, res)));
                }
            } else {
                match res.get("ok") {
                    None => out.push(Finding::new("C11", "c11.bridge_failed", op.idx, format!("{}: {} returned a response without custom messages, the bridge must not fail; the chain received {}", d.cid(), hid, res))),
                    Some(got) => {
                        if got != resp {
                            // name the first field that differs
                            let field = ["messages", "attributes", "events", "data"].iter().find(|f| got[**f] != resp[**f]).copied().unwrap_or("?");
                            out.push(Finding::new("C11", "c11.response_changed", op.idx, format!("{}: response of bridged handler {} changed in `{}`: returned {} / chain received {}", d.cid(), hid, field, resp[field], got[field])));
                        }
                    }
                }
            }
        });
    }
    out
}
