//! Oracles as local monitors over the event log of a run.

use crate::world::RunRecord;
use rt::bb::Ev;
use serde_json::Value;
use std::collections::BTreeMap;

pub mod dispatch;
pub mod custom;
pub mod remote;
pub mod reply;
pub mod twin;
pub mod wire;

#[derive(Clone, Debug, PartialEq, serde::Serialize, serde::Deserialize)]
pub struct Finding {
    pub property: String,
    /// stable oracle id: the violation class used by the minimiser
    pub oracle: String,
    pub op: u32,
    pub detail: String,
}

impl Finding {
    pub fn new(property: &str, oracle: &str, op: u32, detail: String) -> Finding {
        Finding {
            property: property.to_string(),
            oracle: oracle.to_string(),
            op,
            detail,
        }
    }
}

/// coverage cells: name -> hits
#[derive(Default, Clone, Debug)]
pub struct Cells(pub BTreeMap<String, u64>);

impl Cells {
    pub fn hit(&mut self, cell: impl Into<String>) {
        *self.0.entry(cell.into()).or_insert(0) += 1;
    }
    pub fn merge(&mut self, other: &Cells) {
        for (k, v) in &other.0 {
            *self.0.entry(k.clone()).or_insert(0) += v;
        }
    }
}

/// one delivery with what happened directly under it
pub struct Delivery<'a> {
    pub deliver: &'a Ev,
    pub ret: Option<&'a Ev>,
    /// Enter / Build / Exit / Module events at this level, in order
    pub direct: Vec<&'a Ev>,
    /// deliveries nested inside (queries made by the handler)
    pub nested: Vec<Delivery<'a>>,
}

impl<'a> Delivery<'a> {
    pub fn entry(&self) -> &'static str {
        match self.deliver {
            Ev::Deliver { entry, .. } => entry,
            _ => "",
        }
    }
    pub fn cid(&self) -> &str {
        match self.deliver {
            Ev::Deliver { cid, .. } => cid,
            _ => "",
        }
    }
    pub fn addr(&self) -> &str {
        match self.deliver {
            Ev::Deliver { addr, .. } => addr,
            _ => "",
        }
    }
    pub fn flavour(&self) -> u8 {
        match self.deliver {
            Ev::Deliver { flavour, .. } => *flavour,
            _ => 0,
        }
    }
    pub fn msg(&self) -> &Value {
        match self.deliver {
            Ev::Deliver { msg, .. } => msg,
            _ => &Value::Null,
        }
    }
    pub fn ctx(&self) -> &Value {
        match self.deliver {
            Ev::Deliver { ctx, .. } => ctx,
            _ => &Value::Null,
        }
    }
    pub fn faults(&self) -> &[&'static str] {
        match self.deliver {
            Ev::Deliver { faults, .. } => faults,
            _ => &[],
        }
    }
    pub fn ord(&self) -> u32 {
        match self.deliver {
            Ev::Deliver { ord, .. } => *ord,
            _ => 0,
        }
    }
    pub fn result(&self) -> &Value {
        match self.ret {
            Some(Ev::Return { res, .. }) => res,
            _ => &Value::Null,
        }
    }
    /// (handler id, args, ctx) of the handlers entered directly under this delivery
    pub fn enters(&self) -> Vec<(&'a str, &'a Value, &'a Value)> {
        self.direct
            .iter()
            .filter_map(|e| match e {
                Ev::Enter {
                    handler, args, ctx, ..
                } => Some((handler.as_str(), args, ctx)),
                _ => None,
            })
            .collect()
    }
    pub fn exits(&self) -> Vec<(&'a str, &'a Value)> {
        self.direct
            .iter()
            .filter_map(|e| match e {
                Ev::Exit { handler, res, .. } => Some((handler.as_str(), res)),
                _ => None,
            })
            .collect()
    }
    pub fn builds(&self) -> Vec<(&'static str, &'a Value, &'a Value)> {
        self.direct
            .iter()
            .filter_map(|e| match e {
                Ev::Build {
                    kind,
                    input,
                    output,
                    ..
                } => Some((*kind, input, output)),
                _ => None,
            })
            .collect()
    }
}

fn world_of(e: &Ev) -> u8 {
    match e {
        Ev::Deliver { world, .. }
        | Ev::Enter { world, .. }
        | Ev::Build { world, .. }
        | Ev::Exit { world, .. }
        | Ev::Return { world, .. }
        | Ev::Module { world, .. }
        | Ev::New { world, .. } => *world,
    }
}

/// the sequence of top-level deliveries of one op in one world (the chain calls contracts
/// one after the other; only queries nest)
pub fn deliveries<'a>(events: &'a [Ev], world: u8) -> (Vec<Delivery<'a>>, Vec<&'a Ev>) {
    let mut stack: Vec<Delivery<'a>> = vec![];
    let mut out: Vec<Delivery<'a>> = vec![];
    let mut orphans: Vec<&'a Ev> = vec![];
    for e in events.iter().filter(|e| world_of(e) == world) {
        match e {
            Ev::Deliver { .. } => stack.push(Delivery {
                deliver: e,
                ret: None,
                direct: vec![],
                nested: vec![],
            }),
            Ev::Return { .. } => {
                if let Some(mut d) = stack.pop() {
                    d.ret = Some(e);
                    match stack.last_mut() {
                        Some(parent) => parent.nested.push(d),
                        None => out.push(d),
                    }
                } else {
                    orphans.push(e);
                }
            }
            _ => match stack.last_mut() {
                Some(d) => d.direct.push(e),
                None => orphans.push(e),
            },
        }
    }
    // a delivery whose contract panicked never returns
    while let Some(d) = stack.pop() {
        match stack.last_mut() {
            Some(parent) => parent.nested.push(d),
            None => out.push(d),
        }
    }
    (out, orphans)
}

pub fn walk<'a, 'b>(ds: &'b [Delivery<'a>], f: &mut dyn FnMut(&'b Delivery<'a>)) {
    for d in ds {
        f(d);
        walk(&d.nested, f);
    }
}

/// trace shape of a run: per op the sequence (entry, family-level contract, outcome class, faults)
pub fn shape_hash(rec: &RunRecord) -> (u64, bool) {
    let mut h: u64 = 0xcbf29ce484222325;
    let mut deliveries_n = 0u32;
    let mut faults_n = 0u32;
    let mut feed = |s: &str| {
        for b in s.as_bytes() {
            h ^= *b as u64;
            h = h.wrapping_mul(0x100000001b3);
        }
        h ^= 0xff;
        h = h.wrapping_mul(0x100000001b3);
    };
    for op in rec.ops.iter().filter(|o| !o.setup) {
        feed("|op");
        for e in &op.events {
            match e {
                Ev::Deliver {
                    entry,
                    cid,
                    faults,
                    flavour,
                    world,
                    ..
                } => {
                    deliveries_n += 1;
                    faults_n += faults.len() as u32;
                    feed(entry);
                    feed(cid);
                    feed(if *flavour == 0 { "mt" } else { "ep" });
                    feed(if *world == 0 { "w0" } else { "w1" });
                    for f in faults {
                        feed(f);
                    }
                }
                Ev::Enter { handler, .. } => feed(handler),
                Ev::Build { kind, .. } => feed(kind),
                Ev::Return { res, .. } => feed(if res.get("ok").is_some() { "ok" } else { "err" }),
                Ev::Exit { res, .. } => feed(if res.get("ok").is_some() { "xok" } else { "xerr" }),
                Ev::Module { what, .. } => feed(what),
                Ev::New { .. } => {}
            }
        }
        feed(match &op.outcome {
            crate::world::Outcome::Err(v) => v.get("class").and_then(|c| c.as_str()).unwrap_or("err"),
            crate::world::Outcome::Panic(_) => "panic",
            _ => "ok",
        });
    }
    (h, deliveries_n >= 2 || faults_n >= 1)
}

/// the part types / the wrapper are asked inside the monitors too; a panic of the generated
/// deserialiser must not take the monitor down
pub fn safe_wrapper(e: &rt::spec::Entry, kind: &str, bytes: &[u8]) -> Result<String, String> {
    let f = e.wrapper_roundtrip;
    match std::panic::catch_unwind(std::panic::AssertUnwindSafe(|| f(kind, bytes))) {
        Ok(r) => r,
        Err(_) => Err("PANIC while decoding".to_string()),
    }
}

pub fn safe_parts(e: &rt::spec::Entry, kind: &str, bytes: &[u8]) -> Vec<rt::spec::PartVerdict> {
    let f = e.parts_accept;
    std::panic::catch_unwind(std::panic::AssertUnwindSafe(|| f(kind, bytes))).unwrap_or_default()
}
