//! C03: the contract-level message accepts exactly the union of its parts and routes right.
//! Oracle = the real part types (plain serde derives), asked about the very bytes the link
//! delivered.

use super::{deliveries, walk, Cells, Delivery, Finding};
use crate::reg::Reg;
use crate::world::{Outcome, RunRecord};
use rt::spec::Kind;
use serde_json::Value;
use std::collections::BTreeSet;

/// keys of a JSON object in document order, duplicates included (None when not an object)
struct Keys(Option<Vec<(String, Keys)>>);

impl<'de> serde::Deserialize<'de> for Keys {
    fn deserialize<D: serde::Deserializer<'de>>(d: D) -> Result<Self, D::Error> {
        struct V;
        impl<'de> serde::de::Visitor<'de> for V {
            type Value = Keys;
            fn expecting(&self, f: &mut std::fmt::Formatter) -> std::fmt::Result {
                f.write_str("anything")
            }
            fn visit_map<A: serde::de::MapAccess<'de>>(self, mut m: A) -> Result<Keys, A::Error> {
                let mut out = vec![];
                while let Some((k, v)) = m.next_entry::<String, Keys>()? {
                    out.push((k, v));
                }
                Ok(Keys(Some(out)))
            }
            fn visit_seq<A: serde::de::SeqAccess<'de>>(self, mut s: A) -> Result<Keys, A::Error> {
                while s.next_element::<serde::de::IgnoredAny>()?.is_some() {}
                Ok(Keys(None))
            }
            fn visit_bool<E>(self, _: bool) -> Result<Keys, E> { Ok(Keys(None)) }
            fn visit_i64<E>(self, _: i64) -> Result<Keys, E> { Ok(Keys(None)) }
            fn visit_u64<E>(self, _: u64) -> Result<Keys, E> { Ok(Keys(None)) }
            fn visit_f64<E>(self, _: f64) -> Result<Keys, E> { Ok(Keys(None)) }
            fn visit_str<E>(self, _: &str) -> Result<Keys, E> { Ok(Keys(None)) }
            fn visit_unit<E>(self) -> Result<Keys, E> { Ok(Keys(None)) }
            fn visit_none<E>(self) -> Result<Keys, E> { Ok(Keys(None)) }
        }
        d.deserialize_any(V)
    }
}

fn has_dups(keys: &[(String, Keys)]) -> bool {
    let mut seen = BTreeSet::new();
    keys.iter().any(|(k, _)| !seen.insert(k.clone()))
}

pub fn classify_doc(bytes: &[u8]) -> &'static str {
    // not well-formed in the chain's JSON dialect (serde-json-wasm: no floats, integers within
    // 128 bits, ...): whatever a lax parser makes of such bytes, they are "not JSON" here
    if sylvia::cw_std::from_json::<sylvia::serde_value::Value>(bytes).is_err() && serde_json::from_slice::<Value>(bytes).is_ok() {
        return "not_json";
    }
    if let Ok(Keys(Some(top))) = serde_json::from_slice::<Keys>(bytes) {
        if has_dups(&top) {
            return "dup_top_key";
        }
        if top.len() == 1 {
            if let Keys(Some(body)) = &top[0].1 {
                if has_dups(body) {
                    return "dup_field";
                }
            }
        }
    }
    match serde_json::from_slice::<Value>(bytes) {
        Err(_) => "not_json",
        Ok(Value::Object(o)) => match o.len() {
            0 => "zero_keys",
            1 => "one_key",
            _ => "many_keys",
        },
        Ok(_) => "not_object",
    }
}

pub fn check(rec: &RunRecord, reg: &Reg, cells: &mut Cells) -> Vec<Finding> {
    let mut out = vec![];
    let mut prev_state = None;
    for op in rec.ops.iter() {
        let (ds, _) = deliveries(&op.events, 0);
        let mut idx = 0;
        let mut top_rejected = false;
        walk(&ds, &mut |d: &Delivery| {
            let is_top = idx == 0;
            idx += 1;
            let Some(kind) = Kind::from_entry(d.entry()) else { return };
            if !matches!(kind, Kind::Exec | Kind::Query | Kind::Sudo) {
                return;
            }
            let Some(e) = reg.get(d.cid()) else { return };
            if e.spec.overrides.contains(&kind) {
                return;
            }
            let bytes: Vec<u8> = match d.msg() {
                Value::String(s) => s.as_bytes().to_vec(),
                v => v["b64"].as_str().and_then(|s| sylvia::cw_std::Binary::from_base64(s).ok()).map(|b| b.to_vec()).unwrap_or_default(),
            };
            let verdicts = super::safe_parts(e, d.entry(), &bytes);
            let accepted: Vec<_> = verdicts.iter().filter(|v| v.res.is_ok()).collect();
            let wrapper = super::safe_wrapper(e, d.entry(), &bytes);
            let enters = d.enters();
            let res = d.result();
            let shape = classify_doc(&bytes);
            cells.hit(format!("c03|{}|{}|accepted{}|parts{}", d.entry(), shape, accepted.len().min(2), verdicts.len()));
            match accepted.len() {
                1 => {
                    let part = accepted[0].part;
                    let part_json = accepted[0].res.as_ref().unwrap();
                    // is the addressed handler one with a native 128 bit integer parameter?
                    let key0 = serde_json::from_slice::<Value>(&bytes).ok().and_then(|v| v.as_object().and_then(|o| o.keys().next().cloned())).unwrap_or_default();
                    let int128 = e.spec.of_kind(kind).any(|h| h.part == part && h.wire == key0 && h.args.iter().any(|a| a.ty == "u128" || a.ty == "i128"));
                    // ... or one addressed by the second name a forwarded serde alias gives it?
                    let alias = e.spec.of_kind(kind).any(|h| h.part == part && !h.alias.is_empty() && h.alias == key0);
                    let shape = if int128 { "int128_param" } else if alias { "alias_name" } else { shape };
                    match &wrapper {
                        Err(err) => out.push(Finding::new("C03", "c03.wrapper_rejects", op.idx, format!("[doc-shape={}] {}: part `{}` accepts {} but the contract-level {} message rejects it: {}", shape, d.cid(), part, d.msg(), d.entry(), err))),
                        Ok(wj) => {
                            if wj != part_json {
                                out.push(Finding::new("C03", "c03.reencode", op.idx, format!("{}: contract-level message re-encodes {} as {} but part `{}` alone gives {}", d.cid(), d.msg(), wj, part, part_json)));
                            }
                        }
                    }
                    if wrapper.is_err() {
                        return;
                    }
                    // routed to that part, and to the method that part decoded
                    let key = serde_json::from_str::<Value>(part_json)
                        .ok()
                        .and_then(|v| v.as_object().and_then(|o| o.keys().next().cloned()))
                        .unwrap_or_default();
                    let expect: Vec<String> = e
                        .spec
                        .of_kind(kind)
                        .filter(|h| h.part == part && h.wire == key)
                        .map(|h| h.id())
                        .collect();
                    if enters.len() != 1 || expect.len() != 1 || enters[0].0 != expect[0] {
                        out.push(Finding::new("C03", "c03.route", op.idx, format!("{}: {} is accepted by part `{}` only (method `{}`), so exactly {:?} must run; ran {:?}; returned {}", d.cid(), d.msg(), part, key, expect, enters.iter().map(|x| x.0).collect::<Vec<_>>(), res)));
                    }
                }
                0 => {
                    if is_top && enters.is_empty() && res.get("err").is_some() {
                        top_rejected = true;
                    }
                    if let Ok(wj) = &wrapper {
                        out.push(Finding::new("C03", "c03.wrapper_accepts", op.idx, format!("[doc-shape={}] {}: no part accepts {} but the contract-level {} message decodes it to {}", shape, d.cid(), d.msg(), d.entry(), wj)));
                    }
                    if !enters.is_empty() || res.get("err").is_none() {
                        out.push(Finding::new("C03", "c03.rejected_but_ran", op.idx, format!("[doc-shape={}] {}: no part accepts {} yet handlers {:?} ran / returned {}", shape, d.cid(), d.msg(), enters.iter().map(|x| x.0).collect::<Vec<_>>(), res)));
                    }
                    // unknown top-level name => the error enumerates the supported messages
                    // (only for documents that are well-formed in the chain's JSON dialect at all:
                    // serde-json-wasm has no floats, for instance)
                    let dialect_ok = sylvia::cw_std::from_json::<sylvia::serde_value::Value>(&bytes).is_ok();
                    if shape == "one_key" && dialect_ok {
                        let v: Value = serde_json::from_slice(&bytes).unwrap_or(Value::Null);
                        let key = v.as_object().and_then(|o| o.keys().next().cloned()).unwrap_or_default();
                        let lists = (e.name_lists)(d.entry());
                        let known: BTreeSet<String> = lists.iter().flat_map(|(_, l)| l.iter().cloned()).collect();
                        if !known.contains(&key) {
                            cells.hit(format!("c03.unknown_name|{}", d.entry()));
                            // (a forwarded serde alias is a second supported name)
                            let spec_names: BTreeSet<String> = e.spec.of_kind(kind).flat_map(|h| [h.wire.to_string(), h.alias.to_string()]).filter(|n| !n.is_empty()).collect();
                            let text = res["err"]["text"].as_str().unwrap_or("");
                            // names of this contract's *other* kinds must not be offered
                            let foreign: BTreeSet<String> = e.spec.handlers.iter().filter(|h| h.kind != kind && !h.wire.is_empty() && !spec_names.contains(h.wire)).map(|h| h.wire.to_string()).collect();
                            let (listed, exact): (BTreeSet<String>, bool) = match text.split("Messages supported by this contract: ").nth(1) {
                                Some(t) => (t.split(", ").map(|x| x.trim().to_string()).filter(|x| !x.is_empty()).collect(), true),
                                // another wording: every word of the text outside the echoed document
                                None => (
                                    text.replace(&String::from_utf8_lossy(&bytes).to_string(), " ")
                                        .split(|c: char| !(c.is_alphanumeric() || c == '_'))
                                        .filter(|x| !x.is_empty())
                                        .map(|x| x.to_string())
                                        .collect(),
                                    false,
                                ),
                            };
                            let fine = spec_names.is_subset(&listed) && listed.is_disjoint(&foreign) && (!exact || listed.len() == spec_names.len());
                            if !fine {
                                out.push(Finding::new("C03", "c03.unknown_list", op.idx, format!("{}: error for unknown {} message `{}` must list exactly {:?}; it says: {}", d.cid(), d.entry(), key, spec_names, text)));
                            }
                        }
                    }
                }
                _ => out.push(Finding::new("C03", "c03.ambiguous", op.idx, format!("{}: {} is accepted by several parts: {:?}", d.cid(), d.msg(), accepted.iter().map(|a| a.part).collect::<Vec<_>>()))),
            }
        });
        if let Some(p) = op.outcome.foreign_panic() {
            out.push(Finding::new("C03", "c03.panic", op.idx, format!("delivery panicked: {p}")));
        }
        if top_rejected {
            cells.hit("c03.rejected_top");
            if let Some(prev) = &prev_state {
                if *prev != op.state {
                    out.push(Finding::new("C03", "c03.state_changed", op.idx, "a rejected document changed chain state".to_string()));
                }
            }
        }
        prev_state = Some(op.state.clone());
    }
    out
}
