//! C10 (remote helpers build messages the target accepts and routes identically) and
//! C20 (a stored remote handle has a stable, type-independent encoding).

use super::{deliveries, walk, Cells, Delivery, Finding};
use crate::reg::Reg;
use crate::values::doc_for;
use crate::world::RunRecord;
use rt::bb::Ev;
use rt::spec::{HandlerSpec, Kind};
use serde_json::{json, Value};
use sylvia::cw_std::Binary;

fn b64_text(v: &Value) -> Option<Vec<u8>> {
    v.as_str().and_then(|s| Binary::from_base64(s).ok()).map(|b| b.to_vec())
}

/// (contract type id of the target, handler) addressed by a helper call
fn target_handler<'a>(reg: &'a Reg, rec: &RunRecord, peer: &str, method: &str, kind: Kind, cid_hint: Option<&str>) -> Option<(&'a rt::spec::Entry, &'a HandlerSpec)> {
    let cid = cid_hint
        .map(|s| s.to_string())
        .or_else(|| rec.contracts.iter().find(|c| c.addr == peer).map(|c| c.cid.clone()))?;
    let e = reg.get(&cid)?;
    let (part, f) = method.split_once(':')?;
    let h = e.spec.handlers.iter().find(|h| h.kind == kind && h.part == part && h.fn_name == f)?;
    Some((e, h))
}

/// the contract type that lives at `addr` at this point of the run (types change on migrate;
/// the link's deliveries tell)
fn cid_at(events_so_far: &[&Ev], rec: &RunRecord, addr: &str) -> Option<String> {
    let mut cid = None;
    for e in events_so_far {
        if let Ev::Deliver { addr: a, cid: c, .. } = e {
            if a == addr {
                cid = Some(c.clone());
            }
        }
    }
    cid.or_else(|| rec.contracts.iter().find(|c| c.addr == addr).map(|c| c.cid.clone()))
}

pub struct Which {
    pub c10: bool,
    pub c20: bool,
}

pub fn check(rec: &RunRecord, reg: &Reg, which: &Which, cells: &mut Cells) -> Vec<Finding> {
    let mut out = vec![];
    let mut history: Vec<&Ev> = vec![];
    for op in &rec.ops {
        let (ds, _) = deliveries(&op.events, 0);
        // flat list of top-level deliveries for BUILD -> DELIVER linkage
        let tops: Vec<&Delivery> = ds.iter().collect();
        for (ti, d) in tops.iter().enumerate() {
            let caller = d.addr().to_string();
            for (bi, ev) in d.direct.iter().enumerate() {
                let Ev::Build { kind, input, output, cid: caller_cid, .. } = ev else { continue };
                match *kind {
                    "executor" if which.c10 || which.c20 => {
                        let peer = input["peer"].as_str().unwrap_or("");
                        let method = input["method"].as_str().unwrap_or("");
                        let twice = input["form"].as_u64().unwrap_or(0) & 0x10 != 0;
                        let form = input["form"].as_u64().unwrap_or(0) & 0x0f;
                        let body = &output["execute"];
                        // address: the handle's address (for a stored handle: what the slot holds)
                        let expect_addr = if form >= 3 {
                            input["slot_raw"].as_str().and_then(|s| serde_json::from_str::<Value>(s).ok()).and_then(|v| v["addr"].as_str().map(|s| s.to_string())).unwrap_or_default()
                        } else {
                            peer.to_string()
                        };
                        if which.c20 && form >= 3 {
                            cells.hit("c20.exec_via_stored_handle");
                            if body["contract_addr"].as_str() != Some(&expect_addr) {
                                out.push(Finding::new("C20", "c20.loaded_addr", op.idx, format!("{caller_cid}: executor from the handle stored as {} addressed {}", input["slot_raw"], body["contract_addr"])));
                            }
                        }
                        if !which.c10 {
                            continue;
                        }
                        let ty = input["ty"].as_str().unwrap_or("");
                        cells.hit(format!("c10.exec|{}|form{}|{}", if ty.starts_with("dyn:") { "dyn" } else { "contract" }, form, if input["funds"].is_null() { "nofunds" } else if twice { "funds_set_twice" } else { "funds" }));
                        if body.is_null() || body["contract_addr"].as_str() != Some(&expect_addr) {
                            out.push(Finding::new("C10", "c10.exec_addr", op.idx, format!("{caller_cid}: executor helper for handle {} built {}", expect_addr, output)));
                            continue;
                        }
                        let want_funds = if input["funds"].is_null() { json!([]) } else { input["funds"].clone() };
                        if body["funds"] != want_funds {
                            out.push(Finding::new("C10", "c10.exec_funds", op.idx, format!("{caller_cid}: executor built with funds {} carries {}", want_funds, body["funds"])));
                        }
                        // body = the document the property prescribes for (method, args)
                        let hist: Vec<&Ev> = history.iter().copied().chain(op.events.iter()).collect();
                        let tcid = if ty.starts_with("dyn:") { cid_at(&hist, rec, &expect_addr) } else { Some(ty.to_string()) };
                        let Some((_, h)) = target_handler(reg, rec, &expect_addr, method, Kind::Exec, tcid.as_deref()) else { continue };
                        let args: Value = input["args"].as_str().and_then(|s| serde_json::from_str(s).ok()).unwrap_or(Value::Null);
                        let sent: Value = b64_text(&body["msg"]).and_then(|b| serde_json::from_slice(&b).ok()).unwrap_or(Value::Null);
                        if h.regular {
                            let want = doc_for(h, args.as_object().unwrap_or(&serde_json::Map::new()));
                            if sent != want {
                                out.push(Finding::new("C10", "c10.exec_body", op.idx, format!("{caller_cid}: executor `{}` built body {} but the target's entry point expects {}", method, sent, want)));
                            }
                        }
                        // on chain: the next delivery of exactly these bytes to that address
                        let body_text = b64_text(&body["msg"]).map(|b| String::from_utf8_lossy(&b).to_string()).unwrap_or_default();
                        // (only when the bytes identify the message: the same body may be sent twice)
                        let same_body = op.events.iter().filter(|e| matches!(e, Ev::Build { kind: "executor", output: o, .. } if o["execute"]["msg"] == body["msg"] && o["execute"]["contract_addr"] == body["contract_addr"])).count();
                        let cands: Vec<&&Delivery> = tops[ti + 1..].iter().filter(|t| t.entry() == "execute" && t.addr() == expect_addr && t.msg().as_str() == Some(&body_text)).collect();
                        if let (1, [t]) = (same_body, cands.as_slice()) {
                            cells.hit("c10.exec_delivered");
                            if t.ctx()["sender"].as_str() != Some(&caller) || t.ctx()["funds"] != want_funds {
                                out.push(Finding::new("C10", "c10.exec_delivery", op.idx, format!("{caller_cid}: message built for {} arrived with sender {} funds {} (caller {}, funds {})", expect_addr, t.ctx()["sender"], t.ctx()["funds"], caller, want_funds)));
                            }
                            let en = t.enters();
                            let ok = en.len() == 1 && en[0].0 == h.id() && h.args.iter().all(|a| en[0].1[a.name] == args[a.name]);
                            if !ok && t.cid() == tcid.as_deref().unwrap_or("") {
                                out.push(Finding::new("C10", "c10.exec_route", op.idx, format!("{caller_cid}: executor `{}` with {} was routed by the target to {:?} (returned {})", method, args, en.iter().map(|x| (x.0, x.1)).collect::<Vec<_>>(), t.result())));
                            }
                        }
                        let _ = bi;
                    }
                    "querier" if which.c10 => {
                        let peer = input["peer"].as_str().unwrap_or("");
                        let method = input["method"].as_str().unwrap_or("");
                        let ty = input["ty"].as_str().unwrap_or("");
                        cells.hit(format!("c10.query|{}|form{}|{}", if ty.starts_with("dyn:") { "dyn" } else { "contract" }, input["form"], if output.get("ok").is_some() { "ok" } else { "err" }));
                        // the nested delivery caused by this helper: the first nested query to `peer`
                        // after this BUILD's predecessors; queries are sequential, so match by order
                        let nth = d.direct[..bi].iter().filter(|e| matches!(e, Ev::Build { kind: "querier", .. })).count();
                        let Some(n) = d.nested.iter().filter(|n| n.entry() == "query").nth(nth) else {
                            out.push(Finding::new("C10", "c10.query_not_sent", op.idx, format!("{caller_cid}: querier `{}` did not reach any contract", method)));
                            continue;
                        };
                        if n.addr() != peer {
                            out.push(Finding::new("C10", "c10.query_addr", op.idx, format!("{caller_cid}: querier for handle {} asked {}", peer, n.addr())));
                            continue;
                        }
                        let tcid = n.cid().to_string();
                        let Some((_, h)) = target_handler(reg, rec, peer, method, Kind::Query, Some(&tcid)) else { continue };
                        let args: Value = input["args"].as_str().and_then(|s| serde_json::from_str(s).ok()).unwrap_or(Value::Null);
                        let sent: Value = n.msg().as_str().and_then(|s| serde_json::from_str(s).ok()).unwrap_or(Value::Null);
                        if h.regular {
                            let want = doc_for(h, args.as_object().unwrap_or(&serde_json::Map::new()));
                            if sent != want {
                                out.push(Finding::new("C10", "c10.query_body", op.idx, format!("{caller_cid}: querier `{}` sent {} but the target's entry point expects {}", method, sent, want)));
                            }
                        }
                        let en = n.enters();
                        if en.len() != 1 || en[0].0 != h.id() || !h.args.iter().all(|a| en[0].1[a.name] == args[a.name]) {
                            out.push(Finding::new("C10", "c10.query_route", op.idx, format!("{caller_cid}: querier `{}` with {} was routed to {:?}", method, args, en.iter().map(|x| (x.0, x.1)).collect::<Vec<_>>())));
                        }
                        // the target answered: the helper hands that answer out (whatever value it is)
                        if let (Some(err), Some(answer)) = (output.get("err"), n.result().get("ok")) {
                            out.push(Finding::new("C10", "c10.query_value", op.idx, format!("{caller_cid}: querier `{}` failed with {} although the target answered {}", method, err, answer)));
                        }
                        // the decoded response the caller got = the target's own value
                        if let (Some(got), Some((_, ex))) = (output.get("ok"), n.exits().into_iter().next()) {
                            let got_v: Value = got.as_str().and_then(|s| serde_json::from_str(s).ok()).unwrap_or(Value::Null);
                            if let Some(val) = ex.get("ok") {
                                if got_v != *val {
                                    out.push(Finding::new("C10", "c10.query_value", op.idx, format!("{caller_cid}: querier `{}` returned {} but the target answered {}", method, got_v, val)));
                                }
                            }
                        }
                    }
                    "instantiate_builder" if which.c10 => {
                        let salted = !input["salt"].is_null();
                        cells.hit(format!("c10.inst|{}|label_{}|admin_{}|funds_{}", if salted { "salted" } else { "plain" }, if input["label"].is_null() { "unset" } else { "set" }, if input["admin"].is_null() { "unset" } else { "set" }, if input["funds"].is_null() { "unset" } else { "set" }));
                        let m = if salted { &output["instantiate2"] } else { &output["instantiate"] };
                        let ok = !m.is_null()
                            && m["code_id"] == input["code_id"]
                            && m["admin"] == input["admin"]
                            && m["label"] == if input["label"].is_null() { json!("") } else { input["label"].clone() }
                            && m["funds"] == if input["funds"].is_null() { json!([]) } else { input["funds"].clone() }
                            && (!salted || m["salt"] == input["salt"]);
                        if !ok {
                            out.push(Finding::new("C10", "c10.inst_fields", op.idx, format!("{caller_cid}: instantiate builder given {} built {}", input, output)));
                            continue;
                        }
                        let args: Value = input["args"].as_str().and_then(|s| serde_json::from_str(s).ok()).unwrap_or(Value::Null);
                        let sent: Value = b64_text(&m["msg"]).and_then(|b| serde_json::from_slice(&b).ok()).unwrap_or(Value::Null);
                        if sent != args {
                            out.push(Finding::new("C10", "c10.inst_body", op.idx, format!("{caller_cid}: instantiate builder given arguments {} built message {}", args, sent)));
                        }
                        // on chain: a fresh instance of that program entered `instantiate` with them,
                        // and its contract info shows the code id, label and admin given
                        let body_text = b64_text(&m["msg"]).map(|b| String::from_utf8_lossy(&b).to_string()).unwrap_or_default();
                        let same_body = op.events.iter().filter(|e| matches!(e, Ev::Build { kind: "instantiate_builder", output: o, .. } if o["instantiate"]["msg"] == m["msg"] || o["instantiate2"]["msg"] == m["msg"])).count();
                        let cands: Vec<&&Delivery> = tops[ti + 1..].iter().filter(|t| t.entry() == "instantiate" && t.msg().as_str() == Some(&body_text) && t.ctx()["sender"].as_str() == Some(&caller)).collect();
                        if let (1, [t]) = (same_body, cands.as_slice()) {
                            cells.hit("c10.inst_delivered");
                            if t.cid() != input["ty"].as_str().unwrap_or("") {
                                out.push(Finding::new("C10", "c10.inst_code", op.idx, format!("{caller_cid}: instantiate builder for {} created a {}", input["ty"], t.cid())));
                            }
                            if op.outcome.is_ok() {
                                if let Some(info) = op.state.get(&format!("c:{}", t.addr())).map(|s| &s["info"]) {
                                    if info["code_id"] != input["code_id"] || info["admin"] != input["admin"] || (!input["label"].is_null() && info["label"] != input["label"]) {
                                        out.push(Finding::new("C10", "c10.inst_info", op.idx, format!("{caller_cid}: instance created from builder input {} has contract info {}", input, info)));
                                    }
                                }
                            }
                        }
                    }
                    "admin" if which.c10 => {
                        cells.hit(format!("c10.admin|{}", if input["admin"].is_null() { "clear" } else { "update" }));
                        let peer = input["peer"].as_str().unwrap_or("");
                        let ok = if input["admin"].is_null() {
                            output["clear_admin"]["contract_addr"].as_str() == Some(peer)
                        } else {
                            output["update_admin"]["contract_addr"].as_str() == Some(peer) && output["update_admin"]["admin"] == input["admin"]
                        };
                        if !ok {
                            out.push(Finding::new("C10", "c10.admin_msg", op.idx, format!("{caller_cid}: admin helper for {} / {} built {}", peer, input["admin"], output)));
                        }
                    }
                    "remote_save" if which.c20 => {
                        cells.hit(format!("c20.save|{}|form{}", if input["ty"].as_str().unwrap_or("").starts_with("dyn:") { "dyn" } else { "contract" }, input["form"]));
                        // a JSON object with the single member `addr` holding the address string
                        let want = json!({"addr": input["addr"]});
                        let got: Value = output.as_str().and_then(|s| serde_json::from_str(s).ok()).unwrap_or(Value::Null);
                        if got != want || !output.as_str().unwrap_or("").starts_with("{\"addr\":\"") {
                            out.push(Finding::new("C20", "c20.encoding", op.idx, format!("{caller_cid}: Remote<{}> (form {}) for {} was stored as {} instead of {}", input["ty"], input["form"], input["addr"], output, want)));
                        }
                    }
                    "remote_resave" if which.c20 => {
                        cells.hit(format!("c20.resave|{}", if input["ty"].as_str().unwrap_or("").starts_with("dyn:") { "dyn" } else { "contract" }));
                        let raw: Value = input["raw"].as_str().and_then(|s| serde_json::from_str(s).ok()).unwrap_or(Value::Null);
                        if input["loaded"].is_null() {
                            // the load failed: fine for an empty slot or foreign bytes, not for a handle's own encoding
                            let is_handle = raw.as_object().map(|o| o.len() == 1 && o.get("addr").map(|a| a.is_string()).unwrap_or(false)).unwrap_or(false);
                            if is_handle {
                                out.push(Finding::new("C20", "c20.decode", op.idx, format!("{caller_cid}: bytes {} could not be read back as Remote<{}>: {}", input["raw"], input["ty"], input["error"])));
                            }
                            continue;
                        }
                        let stored = raw["addr"].as_str().unwrap_or("<none>");
                        if input["loaded"].as_str() != Some(stored) {
                            out.push(Finding::new("C20", "c20.decode", op.idx, format!("{caller_cid}: bytes {} read back as Remote<{}> gave a handle to {}", input["raw"], input["ty"], input["loaded"])));
                        }
                        let want = json!({"addr": stored});
                        let got: Value = output.as_str().and_then(|s| serde_json::from_str(s).ok()).unwrap_or(Value::Null);
                        if got != want || !output.as_str().unwrap_or("").starts_with("{\"addr\":\"") {
                            out.push(Finding::new("C20", "c20.reencode", op.idx, format!("{caller_cid}: handle loaded from {} was stored again as {}", input["raw"], output)));
                        }
                    }
                    _ => {}
                }
            }
        }
        // queries nest: also look at builds inside nested deliveries? (query handlers do not build)
        let _ = walk;
        history.extend(op.events.iter());
    }
    out
}
