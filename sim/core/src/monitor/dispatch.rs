//! C02 (dispatch runs exactly the annotated handler with the sent arguments and the chain's
//! own context, and hands back the handler's own outcome) and C04 (a handler only ever runs
//! under a delivery of its own kind).

use super::{deliveries, walk, Cells, Delivery, Finding};
use crate::plan::{Intent, Op};
use crate::reg::Reg;
use crate::world::{Outcome, RunRecord};
use rt::spec::{ContractSpec, Entry, HandlerSpec, Kind};
use rt::bb::Ev;
use serde_json::{Map, Value};
use std::collections::BTreeMap;

/// every member is a parameter, and every parameter is there (one with a forwarded serde
/// default may be left out)
fn covers(h: &HandlerSpec, body: &Map<String, Value>) -> bool {
    body.keys().all(|k| k == "zz_unknown" || h.args.iter().any(|a| a.name == k)) && h.args.iter().all(|a| body.contains_key(a.name) || !a.default.is_empty())
}

/// the handler a document is addressed to, read off the document and the SPEC alone
pub fn derive_intent<'a>(
    spec: &'a ContractSpec,
    kind: Kind,
    bytes: &[u8],
) -> Option<(&'a HandlerSpec, Map<String, Value>)> {
    // documents with duplicated keys have no single reading
    if matches!(super::wire::classify_doc(bytes), "dup_top_key" | "dup_field" | "not_json") {
        return None;
    }
    let v: Value = serde_json::from_slice(bytes).ok()?;
    let o = v.as_object()?;
    match kind {
        Kind::Exec | Kind::Query | Kind::Sudo => {
            if o.len() != 1 {
                return None;
            }
            let (k, body) = o.iter().next()?;
            let body = body.as_object()?;
            let hs: Vec<&HandlerSpec> = spec
                .of_kind(kind)
                .filter(|h| h.regular && h.wire == k)
                .collect();
            if hs.len() != 1 {
                return None;
            }
            let h = hs[0];
            if covers(h, body) {
                Some((h, body.clone()))
            } else {
                None
            }
        }
        Kind::Instantiate | Kind::Migrate => {
            let h = spec.of_kind(kind).next()?;
            if covers(h, o) {
                Some((h, o.clone()))
            } else {
                None
            }
        }
        Kind::Reply => None,
    }
}

#[derive(Debug, PartialEq)]
enum ErrNorm {
    Code(u64),
    Text(String),
}

fn scripted_code(text: &str) -> Option<u64> {
    text.strip_prefix("Generic error: scripted:").and_then(|r| r.parse().ok())
}

fn norm_exit_err(v: &Value) -> ErrNorm {
    if let Some(c) = v.get("scripted").and_then(|c| c.as_u64()) {
        return ErrNorm::Code(c);
    }
    let t = v
        .get("std")
        .or_else(|| v.get("own"))
        .and_then(|t| t.as_str())
        .unwrap_or("")
        .to_string();
    match scripted_code(&t) {
        Some(c) => ErrNorm::Code(c),
        None => ErrNorm::Text(t),
    }
}

fn norm_return_err(v: &Value) -> ErrNorm {
    if v["class"] == "scripted" {
        return ErrNorm::Code(v["code"].as_u64().unwrap_or(u64::MAX));
    }
    let t = v["text"].as_str().unwrap_or("").to_string();
    match scripted_code(&t) {
        Some(c) => ErrNorm::Code(c),
        None => ErrNorm::Text(t),
    }
}

fn has_custom_msg(resp: &Value) -> bool {
    resp["messages"]
        .as_array()
        .map(|ms| ms.iter().any(|m| m["msg"].get("custom").is_some()))
        .unwrap_or(false)
}

fn part_of<'a>(spec: &'a ContractSpec, h: &HandlerSpec) -> Option<&'a rt::spec::PartSpec> {
    spec.parts.iter().find(|p| p.name == h.part)
}

/// the owning part's own reading of the document (canonical argument values), if it accepts it
fn owner_reading(e: &Entry, kind: Kind, h: &HandlerSpec, bytes: &[u8]) -> Option<Map<String, Value>> {
    let text = match kind {
        Kind::Exec | Kind::Query | Kind::Sudo => super::safe_parts(e, kind.entry(), bytes)
            .into_iter()
            .find(|v| v.part == h.part)
            .and_then(|v| v.res.ok())?,
        _ => super::safe_wrapper(e, kind.entry(), bytes).ok()?,
    };
    let v: Value = serde_json::from_str(&text).ok()?;
    match kind {
        Kind::Exec | Kind::Query | Kind::Sudo => v.get(h.wire)?.as_object().cloned(),
        _ => v.as_object().cloned(),
    }
}

/// Contract values that carry in-memory state (a tag given at construction, a call counter):
/// the deployment that was handed a value (`Box<dyn Contract>`) runs every handler on that very
/// value, the generated entry points on what the parameterless constructor builds.
fn receiver_check(events: &[Ev], op: u32, reg: &Reg, calls_seen: &mut BTreeMap<u64, u64>, cells: &mut Cells, out: &mut Vec<Finding>) {
    // flavour of the innermost open delivery, per world
    let mut stack: [Vec<u8>; 2] = [vec![], vec![]];
    for e in events {
        match e {
            Ev::Deliver { world, flavour, .. } => stack[(*world as usize).min(1)].push(*flavour),
            Ev::Return { world, .. } => {
                stack[(*world as usize).min(1)].pop();
            }
            Ev::Enter { world, cid, handler, args, .. } => {
                let Some(me) = args.get("__self") else { continue };
                if !reg.get(cid).map(|e| e.spec.has_tag("stateful")).unwrap_or(false) {
                    continue;
                }
                let Some(flavour) = stack[(*world as usize).min(1)].last().copied() else { continue };
                let tag = me["tag"].as_u64().unwrap_or(u64::MAX);
                let calls = me["calls"].as_u64().unwrap_or(u64::MAX);
                match flavour {
                    0 => {
                        cells.hit("c02.receiver|value");
                        let seen = calls_seen.entry(tag).or_insert(0);
                        if tag == 0 || calls != *seen {
                            out.push(Finding::new("C02", "c02.receiver", op, format!("{cid}: {handler} ran on a contract value with tag {tag} after {calls} calls; the deployed value (a non-zero tag) has served {} calls so far", *seen)));
                        }
                        *seen += 1;
                    }
                    1 => {
                        cells.hit("c02.receiver|constructed");
                        if tag != 0 || calls != 0 {
                            out.push(Finding::new("C02", "c02.receiver", op, format!("{cid}: under the generated entry point {handler} ran on a value with tag {tag} after {calls} calls, not on a freshly constructed one")));
                        }
                    }
                    _ => {}
                }
            }
            _ => {}
        }
    }
}

pub struct Which {
    pub c02: bool,
    pub c04: bool,
}

pub fn check(rec: &RunRecord, ops: &[&Op], reg: &Reg, which: &Which, cells: &mut Cells) -> Vec<Finding> {
    let mut out = vec![];
    let mut calls_seen: BTreeMap<u64, u64> = BTreeMap::new();
    for (i, op) in rec.ops.iter().enumerate() {
        let worlds: &[u8] = if op.outcome1.is_some() { &[0, 1] } else { &[0] };
        for w in worlds {
            let (ds, _) = deliveries(&op.events, *w);
            let top_intent: Option<&Intent> = ops.get(i).and_then(|o| match o {
                Op::Exec { intent, .. }
                | Op::Query { intent, .. }
                | Op::Sudo { intent, .. }
                | Op::Instantiate { intent, .. }
                | Op::Migrate { intent, .. } => intent.as_ref(),
                _ => None,
            });
            let mut first = true;
            walk(&ds, &mut |d: &Delivery| {
                let is_top = first;
                first = false;
                let Some(kind) = Kind::from_entry(d.entry()) else { return };
                let Some(e) = reg.get(d.cid()) else { return };
                let enters = d.enters();
                // ---------------- C04: kinds never cross
                if which.c04 {
                    cells.hit(format!("c04.deliver|{}", d.entry()));
                    for (hid, _, _) in &enters {
                        let ok = hid.starts_with(&format!("{}:", d.entry()))
                            || *hid == format!("override:{}", d.entry());
                        if !ok {
                            out.push(Finding::new(
                                "C04",
                                "c04.kind",
                                op.idx,
                                format!("{}: handler {} ran under a delivery to the {} entry point (document {})", d.cid(), hid, d.entry(), d.msg()),
                            ));
                        }
                    }
                }
                if !which.c02 || kind == Kind::Reply {
                    return;
                }
                if e.spec.overrides.contains(&kind) {
                    return;
                }
                if !d.faults().is_empty() {
                    return;
                }
                let bytes: Vec<u8> = match d.msg() {
                    Value::String(s) => s.as_bytes().to_vec(),
                    _ => return,
                };
                // who is this document for?
                let explicit = if is_top {
                    top_intent
                        .filter(|it| it.cid.is_empty() || it.cid == d.cid())
                        .and_then(|it| e.spec.handler(&it.hid).map(|h| (h, it.args.as_object().cloned().unwrap_or_default())))
                } else {
                    None
                };
                let (h, args, must_run) = match explicit {
                    Some((h, a)) if h.kind == kind && h.regular => (h, a, true),
                    Some(_) => return,
                    None => match derive_intent(e.spec, kind, &bytes) {
                        Some((h, a)) => match owner_reading(e, kind, h, &bytes) {
                            Some(canon) => (h, canon, true),
                            None => (h, a, false),
                        },
                        None => return,
                    },
                };
                if !must_run {
                    return;
                }
                let part = part_of(e.spec, h);
                let bridged_msg = part.map(|p| p.custom_msg).unwrap_or(false);
                cells.hit(format!(
                    "c02|{}|{}|{}|{}",
                    d.entry(),
                    if h.part.is_empty() { "own" } else if bridged_msg || part.map(|p| p.custom_query).unwrap_or(false) { "bridged" } else { "iface" },
                    if d.flavour() == 0 { "mt" } else { "ep" },
                    if is_top { "top" } else { "nested" }
                ));
                let hid = h.id();
                if enters.len() != 1 || enters[0].0 != hid {
                    out.push(Finding::new(
                        "C02",
                        if enters.is_empty() { "c02.not_invoked" } else { "c02.wrong_handler" },
                        op.idx,
                        format!("{}: document {} must run {} exactly once; ran {:?}; returned {}", d.cid(), d.msg(), hid, enters.iter().map(|x| x.0).collect::<Vec<_>>(), d.result()),
                    ));
                    return;
                }
                let (_, eargs, ectx) = enters[0];
                for a in h.args {
                    // a member that was left out: the forwarded default, else (an `Option`) nothing
                    let sent: Value = match args.get(a.name) {
                        Some(v) => v.clone(),
                        None if !a.default.is_empty() => serde_json::from_str(a.default).unwrap_or(Value::Null),
                        None => Value::Null,
                    };
                    if eargs[a.name] != sent {
                        out.push(Finding::new(
                            "C02",
                            "c02.args",
                            op.idx,
                            format!("{}: {} parameter `{}` got {} but {} was sent", d.cid(), hid, a.name, eargs[a.name], sent),
                        ));
                    }
                }
                if ectx != d.ctx() {
                    out.push(Finding::new(
                        "C02",
                        "c02.ctx",
                        op.idx,
                        format!("{}: {} saw context {} but the chain delivered {}", d.cid(), hid, ectx, d.ctx()),
                    ));
                }
                // the caller gets the handler's own outcome
                let Some((_, ex)) = d.exits().into_iter().find(|x| x.0 == hid) else { return };
                let res = d.result();
                match (ex.get("ok"), ex.get("err")) {
                    (Some(okv), _) if bridged_msg && has_custom_msg(okv) => {
                        // the documented failure of the `: custom(msg)` bridge; C11 decides it
                        cells.hit("c02.outcome|bridge_custom");
                    }
                    (Some(okv), _) => {
                        cells.hit("c02.outcome|ok");
                        match res.get("ok") {
                            None if kind == Kind::Query && okv.as_str().map(|t| t.starts_with("<<unserialisable")).unwrap_or(false) => {
                                cells.hit("c02.query_unencodable");
                            }
                            None => out.push(Finding::new("C02", "c02.outcome", op.idx, format!("{}: {} returned Ok but the chain received {}", d.cid(), hid, res))),
                            Some(got) => {
                                if kind == Kind::Query && okv.as_str().map(|t| t.starts_with("<<unserialisable")).unwrap_or(false) {
                                    // the handler's value has no JSON encoding: the caller must get an error
                                    out.push(Finding::new("C02", "c02.query_value", op.idx, format!("{}: query {} returned a value without a JSON encoding but the caller received {}", d.cid(), hid, got)));
                                } else if kind == Kind::Query {
                                    let parsed: Value = got.as_str().and_then(|s| serde_json::from_str(s).ok()).unwrap_or(Value::Null);
                                    if parsed != *okv {
                                        out.push(Finding::new("C02", "c02.query_value", op.idx, format!("{}: query {} returned {} but the caller received {}", d.cid(), hid, okv, got)));
                                    }
                                } else if got != okv {
                                    out.push(Finding::new("C02", "c02.response", op.idx, format!("{}: {} returned response {} but the chain received {}", d.cid(), hid, okv, got)));
                                }
                            }
                        }
                    }
                    (None, Some(errv)) => {
                        cells.hit("c02.outcome|err");
                        match res.get("err") {
                            None => out.push(Finding::new("C02", "c02.outcome", op.idx, format!("{}: {} returned Err {} but the chain received {}", d.cid(), hid, errv, res))),
                            Some(got) => {
                                if norm_exit_err(errv) != norm_return_err(got) {
                                    out.push(Finding::new("C02", "c02.error_value", op.idx, format!("{}: {} failed with {} but the chain received {}", d.cid(), hid, errv, got)));
                                }
                                let class = got["class"].as_str().unwrap_or("");
                                if class != "scripted" && class != "own" {
                                    out.push(Finding::new("C02", "c02.error_type", op.idx, format!("{}: error of {} did not arrive as the contract's declared error type: {}", d.cid(), hid, got)));
                                }
                            }
                        }
                    }
                    _ => {}
                }
            });
        }
        if which.c02 {
            receiver_check(&op.events, op.idx, reg, &mut calls_seen, cells, &mut out);
            if let Some(p) = op.outcome.foreign_panic() {
                out.push(Finding::new("C02", "c02.panic", op.idx, format!("operation panicked: {p}")));
            }
        }
    }
    out
}
