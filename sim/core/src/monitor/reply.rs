//! Monitors for the reply machinery: C07 (routing), C08 (builders / round trip), C09 (data modes).

use super::{deliveries, walk, Cells, Delivery, Finding};
use crate::reg::Reg;
use crate::world::RunRecord;
use rt::bb::j;
use rt::spec::{ContractSpec, DataMode, Entry, HandlerSpec, Kind, On};
use rt::types::{Pay, Pt};
use serde_json::{json, Value};
use std::collections::BTreeMap;
use sylvia::cw_std::{from_json, Binary};

pub struct Table<'a> {
    pub ids: BTreeMap<u64, &'static str>,
    pub names: BTreeMap<&'static str, u64>,
    pub spec: &'a ContractSpec,
}

impl<'a> Table<'a> {
    pub fn of(e: &'a Entry) -> Table<'a> {
        let ids: Vec<(&'static str, u64)> = (e.reply_ids)();
        Table {
            ids: ids.iter().map(|(n, i)| (*i, *n)).collect(),
            names: ids.iter().cloned().collect(),
            spec: e.spec,
        }
    }
    pub fn methods(&self, name: &str) -> Vec<&'static HandlerSpec> {
        self.spec
            .of_kind(Kind::Reply)
            .filter(|h| h.reply.as_ref().map(|r| r.names.contains(&name)).unwrap_or(false))
            .collect()
    }
    pub fn method_for(&self, name: &str, ok: bool) -> Option<&'static HandlerSpec> {
        let ms = self.methods(name);
        let want = if ok { On::Success } else { On::Error };
        ms.iter()
            .find(|h| h.reply.as_ref().unwrap().on == want)
            .or_else(|| ms.iter().find(|h| h.reply.as_ref().unwrap().on == On::Always))
            .copied()
    }
    /// the trigger the builder must request
    pub fn reply_on(&self, name: &str) -> &'static str {
        let ms = self.methods(name);
        let has = |o: On| ms.iter().any(|h| h.reply.as_ref().unwrap().on == o);
        if has(On::Always) || (has(On::Success) && has(On::Error)) {
            "always"
        } else if has(On::Success) {
            "success"
        } else {
            "error"
        }
    }
}

pub fn b64_bytes(v: &Value) -> Option<Vec<u8>> {
    v.as_str()
        .and_then(|s| Binary::from_base64(s).ok())
        .map(|b| b.to_vec())
}

#[derive(Debug, PartialEq)]
pub enum DataExp {
    NotApplicable,
    Value(Value),
    NoneOrError,
    Missing,
    Undecodable(&'static str),
}

fn decode_typed(ty: &str, inner: &[u8]) -> Result<Value, String> {
    match ty {
        "Pt" => from_json::<Pt>(inner).map(|v| j(&v)).map_err(|e| e.to_string()),
        "String" => from_json::<String>(inner).map(|v| j(&v)).map_err(|e| e.to_string()),
        "u64" => from_json::<u64>(inner).map(|v| j(&v)).map_err(|e| e.to_string()),
        "Option<u64>" => from_json::<Option<u64>>(inner).map(|v| j(&v)).map_err(|e| e.to_string()),
        other => Err(format!("harness: no decoder for {other}")),
    }
}

/// The documented pipeline, re-run outside the generated code on the delivered bytes.
pub fn expected_data(mode: DataMode, ty: &str, data: Option<&[u8]>) -> (DataExp, &'static str) {
    use sylvia::cw_utils::{parse_execute_response_data, parse_instantiate_response_data};
    match mode {
        DataMode::Unmarked => (DataExp::NotApplicable, "unmarked"),
        DataMode::Raw => match data {
            Some(b) => (DataExp::Value(json!(Binary::from(b.to_vec()).to_base64())), "good"),
            None => (DataExp::Missing, "absent"),
        },
        DataMode::RawOpt => match data {
            Some(b) => (DataExp::Value(json!(Binary::from(b.to_vec()).to_base64())), "good"),
            None => (DataExp::Value(Value::Null), "absent"),
        },
        DataMode::Typed | DataMode::Opt => {
            let opt = mode == DataMode::Opt;
            match data {
                None => {
                    if opt {
                        (DataExp::Value(Value::Null), "absent")
                    } else {
                        (DataExp::Missing, "absent")
                    }
                }
                Some(b) => match parse_execute_response_data(b) {
                    Err(_) => (DataExp::Undecodable("envelope"), "bad_envelope"),
                    Ok(env) => match env.data {
                        None => {
                            if opt {
                                (DataExp::NoneOrError, "no_inner")
                            } else {
                                (DataExp::Missing, "no_inner")
                            }
                        }
                        Some(inner) => match decode_typed(ty, inner.as_slice()) {
                            Ok(v) => (DataExp::Value(v), "good"),
                            Err(_) => (DataExp::Undecodable("json"), "bad_json"),
                        },
                    },
                },
            }
        }
        DataMode::Instantiate | DataMode::InstantiateOpt => {
            let opt = mode == DataMode::InstantiateOpt;
            match data {
                None => {
                    if opt {
                        (DataExp::Value(Value::Null), "absent")
                    } else {
                        (DataExp::Missing, "absent")
                    }
                }
                Some(b) => match parse_instantiate_response_data(b) {
                    Ok(r) => (
                        DataExp::Value(json!({"contract_address": r.contract_address, "data": j(&r.data)})),
                        "good",
                    ),
                    Err(_) => (DataExp::Undecodable("envelope"), "bad_envelope"),
                },
            }
        }
    }
}

/// can the delivered payload be decoded into the method's payload parameters?
pub fn payload_decodable(m: &HandlerSpec, payload: &[u8]) -> bool {
    let r = m.reply.as_ref().unwrap();
    if r.payload_raw {
        return true;
    }
    let tys: Vec<&str> = r.payload.iter().map(|a| a.ty).collect();
    match tys.as_slice() {
        ["Pay"] => from_json::<Pay>(payload).is_ok(),
        ["Binary"] => from_json::<Binary>(payload).is_ok(),
        ["u64", "String", "Script"] => from_json::<(u64, String, rt::script::Script)>(payload).is_ok(),
        ["u128", "i128", "Script"] => from_json::<(u128, i128, rt::script::Script)>(payload).is_ok(),
        ["u128"] => from_json::<u128>(payload).is_ok(),
        ["Nil"] => from_json::<rt::types::Nil>(payload).is_ok(),
        ["Vec<Vec<u32>>"] => from_json::<Vec<Vec<u32>>>(payload).is_ok(),
        _ => false,
    }
}

fn strip_reply_extras(ctx: &Value) -> Value {
    let mut c = ctx.clone();
    if let Some(o) = c.as_object_mut() {
        o.remove("gas_used");
        o.remove("events");
        o.remove("msg_responses");
    }
    c
}

pub struct ReplyMonitors {
    pub c07: bool,
    pub c08: bool,
    pub c09: bool,
}

pub fn check(rec: &RunRecord, reg: &Reg, which: &ReplyMonitors, cells: &mut Cells) -> Vec<Finding> {
    let mut out = vec![];
    // C08: distinct names => distinct ids, once per contract type present
    if which.c08 {
        let mut seen = std::collections::BTreeSet::new();
        for c in &rec.contracts {
            if !seen.insert(c.cid.clone()) {
                continue;
            }
            if let Some(e) = reg.get(&c.cid) {
                let ids = (e.reply_ids)();
                let mut by_id: BTreeMap<u64, &str> = BTreeMap::new();
                for (n, i) in &ids {
                    if let Some(prev) = by_id.insert(*i, n) {
                        out.push(Finding::new(
                            "C08",
                            "c08.ids_distinct",
                            0,
                            format!("{}: reply names `{}` and `{}` share id {}", c.cid, prev, n, i),
                        ));
                    }
                }
                // every declared name has an id
                let declared: std::collections::BTreeSet<&str> = e
                    .spec
                    .of_kind(Kind::Reply)
                    .flat_map(|h| h.reply.as_ref().unwrap().names.iter().copied())
                    .collect();
                if e.spec.replies_feature && declared.len() != ids.len() {
                    out.push(Finding::new(
                        "C08",
                        "c08.ids_complete",
                        0,
                        format!("{}: {} names declared, {} ids generated", c.cid, declared.len(), ids.len()),
                    ));
                }
            }
        }
    }
    for op in rec.ops.iter() {
        let (ds, _) = deliveries(&op.events, 0);
        // all sub-message builds of this op, for the round trip
        let mut builds: Vec<(&str, &Value, &Value)> = vec![];
        walk(&ds, &mut |d: &Delivery| {
            for e in &d.direct {
                if let rt::bb::Ev::Build {
                    cid,
                    kind: "submsg",
                    input,
                    output,
                    ..
                } = e
                {
                    builds.push((cid.as_str(), input, output));
                }
            }
        });
        if which.c08 {
            for (cid, input, output) in &builds {
                let Some(e) = reg.get(cid) else { continue };
                let t = Table::of(e);
                let name = input["name"].as_str().unwrap_or("");
                let recv = input["recv"].as_u64().unwrap_or(9);
                cells.hit(format!(
                    "c08.build|recv{}|{}|{}",
                    recv,
                    t.reply_on(name),
                    t.methods(name)
                        .first()
                        .map(|m| if m.reply.as_ref().unwrap().payload_raw { "raw".to_string() } else { format!("typed{}", m.reply.as_ref().unwrap().payload.len()) })
                        .unwrap_or_default()
                ));
                match t.names.get(name) {
                    Some(id) if output["id"].as_u64() == Some(*id) => {}
                    other => out.push(Finding::new(
                        "C08",
                        "c08.id",
                        op.idx,
                        format!("{cid}: builder `{name}` stamped id {} but the constant is {:?}", output["id"], other),
                    )),
                }
                if output["reply_on"].as_str() != Some(t.reply_on(name)) {
                    out.push(Finding::new(
                        "C08",
                        "c08.reply_on",
                        op.idx,
                        format!("{cid}: builder `{name}` requested {} but the declared outcomes need {}", output["reply_on"], t.reply_on(name)),
                    ));
                }
                if output["msg"] != input["msg"] {
                    out.push(Finding::new(
                        "C08",
                        "c08.msg",
                        op.idx,
                        format!("{cid}: builder `{name}` changed the wrapped message: {} -> {}", input["msg"], output["msg"]),
                    ));
                }
                if recv == 0 && output["gas_limit"] != input["gas_limit"] {
                    out.push(Finding::new(
                        "C08",
                        "c08.gas_limit",
                        op.idx,
                        format!("{cid}: builder `{name}` on an existing sub-message changed gas_limit {} -> {}", input["gas_limit"], output["gas_limit"]),
                    ));
                }
                let raw = t
                    .methods(name)
                    .first()
                    .map(|m| m.reply.as_ref().unwrap().payload_raw)
                    .unwrap_or(false);
                if raw {
                    let sent = input["payload"].as_str().map(|s| s.as_bytes().to_vec());
                    if b64_bytes(&output["payload"]) != sent {
                        out.push(Finding::new(
                            "C08",
                            "c08.raw_payload",
                            op.idx,
                            format!("{cid}: builder `{name}` did not keep the raw payload byte for byte"),
                        ));
                    }
                }
            }
        }
        walk(&ds, &mut |d: &Delivery| {
            if d.entry() != "reply" {
                return;
            }
            let Some(e) = reg.get(d.cid()) else { return };
            if !e.spec.replies_feature || e.spec.overrides.contains(&Kind::Reply) {
                return;
            }
            let t = Table::of(e);
            let reply = d.msg();
            let id = reply["id"].as_u64().unwrap_or(u64::MAX);
            let ok = reply["result"].get("ok").is_some();
            let enters = d.enters();
            let res = d.result();
            let payload = b64_bytes(&reply["payload"]).unwrap_or_default();
            let Some(name) = t.ids.get(&id).copied() else {
                if which.c07 {
                    cells.hit("c07|unknown_id");
                    if !enters.is_empty() || res.get("err").is_none() {
                        out.push(Finding::new(
                            "C07",
                            "c07.unknown_id",
                            op.idx,
                            format!("{}: reply id {} belongs to no handler but entered {:?} / returned {}", d.cid(), id, enters.iter().map(|e| e.0).collect::<Vec<_>>(), res),
                        ));
                    }
                }
                return;
            };
            let method = t.method_for(name, ok);
            let Some(m) = method else {
                if which.c07 {
                    cells.hit(format!("c07|uncovered|{}", if ok { "ok" } else { "err" }));
                    if !enters.is_empty() {
                        out.push(Finding::new(
                            "C07",
                            "c07.uncovered_entered",
                            op.idx,
                            format!("{}: no method covers ({name}, {}) but {:?} ran", d.cid(), if ok { "success" } else { "error" }, enters.iter().map(|e| e.0).collect::<Vec<_>>()),
                        ));
                    } else if ok {
                        let sub = &reply["result"]["ok"];
                        let r = &res["ok"];
                        let good = !r.is_null()
                            && r["events"] == sub["events"]
                            && r["data"] == sub["data"]
                            && r["messages"].as_array().map(|a| a.is_empty()).unwrap_or(false)
                            && r["attributes"].as_array().map(|a| a.is_empty()).unwrap_or(false);
                        if !good {
                            out.push(Finding::new(
                                "C07",
                                "c07.passthrough_ok",
                                op.idx,
                                format!("{}: uncovered success for `{name}` must pass events and data through; sub={} returned={}", d.cid(), sub, res),
                            ));
                        }
                    } else {
                        let text = reply["result"]["error"].as_str().unwrap_or("");
                        let got = res["err"]["text"].as_str().unwrap_or("");
                        if res.get("err").is_none() || !got.contains(text) {
                            out.push(Finding::new(
                                "C07",
                                "c07.passthrough_err",
                                op.idx,
                                format!("{}: uncovered failure for `{name}` must be answered with that error; returned={}", d.cid(), res),
                            ));
                        }
                    }
                }
                return;
            };
            let r = m.reply.as_ref().unwrap();
            let data_bytes = if ok { b64_bytes(&reply["result"]["ok"]["data"]) } else { None };
            let (dexp, cond) = if ok && r.on == On::Success {
                expected_data(r.data, r.data_ty, data_bytes.as_deref())
            } else {
                (DataExp::NotApplicable, "n/a")
            };
            let pay_ok = payload_decodable(m, &payload);
            let decode_fails = !pay_ok || matches!(dexp, DataExp::Missing | DataExp::Undecodable(_));
            let mine: Vec<_> = enters.iter().filter(|e| e.0 == m.id()).collect();
            if which.c07 {
                cells.hit(format!(
                    "c07|{}|{}|{}",
                    if ok { "ok" } else { "err" },
                    match r.on { On::Success => "success", On::Error => "error", On::Always => "always" },
                    if r.names.len() > 1 { "shared" } else { "single" }
                ));
                let wrong: Vec<_> = enters.iter().filter(|e| e.0 != m.id()).collect();
                if !wrong.is_empty() || mine.len() > 1 {
                    out.push(Finding::new(
                        "C07",
                        "c07.wrong_method",
                        op.idx,
                        format!("{}: reply for (`{name}`, {}) must run {} exactly once; ran {:?}", d.cid(), if ok { "success" } else { "error" }, m.id(), enters.iter().map(|e| e.0).collect::<Vec<_>>()),
                    ));
                } else if mine.is_empty() {
                    if !decode_fails && dexp != DataExp::NoneOrError {
                        out.push(Finding::new(
                            "C07",
                            "c07.not_invoked",
                            op.idx,
                            format!("{}: reply for (`{name}`, {}) must run {}; nothing ran, returned {}", d.cid(), if ok { "success" } else { "error" }, m.id(), res),
                        ));
                    }
                } else {
                    let (_, args, ctx) = mine[0];
                    if !pay_ok {
                        out.push(Finding::new("C07", "c07.entered_on_bad_payload", op.idx, format!("{}: {} ran although the delivered payload {} cannot be decoded into its payload parameters (got {})", d.cid(), m.id(), reply["payload"], args)));
                    }
                    if ctx["gas_used"] != reply["gas_used"] {
                        out.push(Finding::new("C07", "c07.gas_used", op.idx, format!("{}: {} saw gas_used {} but {} was delivered", d.cid(), m.id(), ctx["gas_used"], reply["gas_used"])));
                    }
                    if strip_reply_extras(ctx) != *d.ctx() {
                        out.push(Finding::new("C07", "c07.ctx", op.idx, format!("{}: {} context {} differs from the delivery's {}", d.cid(), m.id(), strip_reply_extras(ctx), d.ctx())));
                    }
                    match r.on {
                        On::Success => {
                            let sub = &reply["result"]["ok"];
                            if ctx["events"] != sub["events"] || ctx["msg_responses"] != sub["msg_responses"] {
                                out.push(Finding::new("C07", "c07.ctx_events", op.idx, format!("{}: success method {} must get the sub-message's events and message responses; got events={} responses={} delivered={}", d.cid(), m.id(), ctx["events"], ctx["msg_responses"], sub)));
                            }
                        }
                        On::Error => {
                            if args["error"] != reply["result"]["error"] {
                                out.push(Finding::new("C07", "c07.error_text", op.idx, format!("{}: error method {} got {} but {} was delivered", d.cid(), m.id(), args["error"], reply["result"]["error"])));
                            }
                        }
                        On::Always => {
                            if args["result"] != reply["result"] {
                                out.push(Finding::new("C07", "c07.always_result", op.idx, format!("{}: always method {} got {} but {} was delivered", d.cid(), m.id(), args["result"], reply["result"])));
                            }
                        }
                    }
                    // the dispatcher hands back the method's own outcome
                    if let Some((_, ex)) = d.exits().iter().find(|x| x.0 == m.id()) {
                        let same = match (ex.get("ok"), res.get("ok")) {
                            (Some(a), Some(b)) => a == b,
                            (None, None) => true,
                            _ => false,
                        };
                        if !same {
                            out.push(Finding::new("C07", "c07.outcome", op.idx, format!("{}: {} returned {} but the chain received {}", d.cid(), m.id(), ex, res)));
                        }
                    }
                }
            }
            if which.c08 && mine.is_empty() && !matches!(dexp, DataExp::Missing | DataExp::Undecodable(_) | DataExp::NoneOrError) && enters.is_empty() {
                // a payload made by the generated builder must reach the method's payload parameters
                if builds.iter().any(|(cid, _, output)| *cid == d.cid() && output["payload"] == reply["payload"] && output["id"] == reply["id"]) {
                    out.push(Finding::new("C08", "c08.roundtrip_lost", op.idx, format!("{}: the payload built by `{name}`'s builder was not delivered to {}: the reply returned {}", d.cid(), m.id(), res)));
                }
            }
            if which.c08 && mine.is_empty() && !enters.is_empty() {
                // builder and dispatcher have to agree on what an id means: a sub-message stamped by
                // `name`'s builder must not end up in a method that does not serve (`name`, outcome)
                if builds.iter().any(|(cid, _, output)| *cid == d.cid() && output["payload"] == reply["payload"] && output["id"] == reply["id"]) {
                    out.push(Finding::new("C08", "c08.roundtrip_misrouted", op.idx, format!("{}: the sub-message stamped by `{name}`'s builder (id {}) was answered by {:?} instead of {}", d.cid(), reply["id"], enters.iter().map(|e| e.0).collect::<Vec<_>>(), m.id())));
                }
            }
            if which.c08 && !mine.is_empty() && r.payload_raw {
                // a raw payload reaches the method byte for byte, whoever made the sub-message
                let (_, args, _) = mine[0];
                if args["payload"] != rt::bb::bytes_text(&payload) {
                    out.push(Finding::new("C08", "c08.delivered_raw", op.idx, format!("{}: {} got the raw payload {} but {} was delivered", d.cid(), m.id(), args["payload"], rt::bb::bytes_text(&payload))));
                }
            }
            if which.c08 && !mine.is_empty() {
                // round trip: the payload parameters equal what the builder was given
                if let Some((_, input, _)) = builds.iter().find(|(cid, _, output)| {
                    *cid == d.cid() && output["payload"] == reply["payload"] && output["id"] == reply["id"]
                }) {
                    let (_, args, _) = mine[0];
                    cells.hit(format!("c08.roundtrip|{}", if r.payload_raw { "raw".to_string() } else { format!("typed{}", r.payload.len()) }));
                    if r.payload_raw {
                        if args["payload"] != input["payload"] {
                            out.push(Finding::new("C08", "c08.roundtrip_raw", op.idx, format!("{}: raw payload {} arrived as {}", d.cid(), input["payload"], args["payload"])));
                        }
                    } else {
                        let sent: Value = input["payload"]
                            .as_str()
                            .and_then(|s| serde_json::from_str(s).ok())
                            .unwrap_or(Value::Null);
                        for (i, a) in r.payload.iter().enumerate() {
                            if args[a.name] != sent[i] {
                                out.push(Finding::new("C08", "c08.roundtrip_typed", op.idx, format!("{}: payload parameter `{}` of {} got {} but the builder was given {}", d.cid(), a.name, m.id(), args[a.name], sent[i])));
                            }
                        }
                    }
                }
            }
            if which.c09 && ok && r.on == On::Success && pay_ok {
                cells.hit(format!("c09|{:?}|{}", r.data, cond));
                let entered_mine = !mine.is_empty();
                match &dexp {
                    DataExp::NotApplicable => {}
                    DataExp::Value(v) => {
                        // an optional mode hands out `Some` exactly when data was there (`Some(None)`
                        // of an optional type and `None` both read as null)
                        let some_wrong = matches!(r.data, DataMode::RawOpt | DataMode::Opt | DataMode::InstantiateOpt)
                            && entered_mine
                            && mine[0].1.get("data_some").map(|x| *x != json!(cond != "absent")).unwrap_or(false);
                        if some_wrong {
                            out.push(Finding::new("C09", "c09.value", op.idx, format!("{}: {} (mode {:?}, data {}) got data_some={} for data {}", d.cid(), m.id(), r.data, cond, mine[0].1["data_some"], mine[0].1["data"])));
                        }
                        if enters.len() != 1 || !entered_mine || mine[0].1["data"] != *v {
                            out.push(Finding::new("C09", "c09.value", op.idx, format!("{}: {} (mode {:?}) must receive data {}; entered {:?} with {}; returned {}", d.cid(), m.id(), r.data, v, enters.iter().map(|e| e.0).collect::<Vec<_>>(), mine.first().map(|x| x.1["data"].clone()).unwrap_or(Value::Null), res)));
                        }
                    }
                    DataExp::NoneOrError => {
                        let fine = (enters.is_empty() && res.get("err").is_some())
                            || (enters.len() == 1 && entered_mine && mine[0].1["data"].is_null());
                        if !fine {
                            out.push(Finding::new("C09", "c09.two_sided", op.idx, format!("{}: {} (mode {:?}) with an envelope that carries no inner data may yield None or an error, never a value; entered with {:?}, returned {}", d.cid(), m.id(), r.data, mine.first().map(|x| x.1["data"].clone()), res)));
                        }
                    }
                    DataExp::Missing | DataExp::Undecodable(_) => {
                        if !enters.is_empty() || res.get("err").is_none() {
                            out.push(Finding::new("C09", "c09.entered_on_bad_data", op.idx, format!("{}: {} (mode {:?}) must fail without running the handler when data is {:?}; entered {:?}, returned {}", d.cid(), m.id(), r.data, dexp, enters.iter().map(|e| e.0).collect::<Vec<_>>(), res)));
                        } else if dexp == DataExp::Missing {
                            let text = res["err"]["text"].as_str().unwrap_or("").to_lowercase();
                            if !text.contains("missing") {
                                out.push(Finding::new("C09", "c09.missing_text", op.idx, format!("{}: {} (mode {:?}) with absent data must fail with a missing-data error; got {}", d.cid(), m.id(), r.data, res)));
                            }
                        }
                    }
                }
            }
        });
    }
    out
}
