//! Twin-world comparison: C12 (proxies vs raw JSON) and the run-time clause of C06
//! (generated entry points vs the reference deployment).

use super::{Cells, Finding};
use crate::plan::{Op, Plan};
use crate::world::{Outcome, RunRecord};
use rt::bb::Ev;
use serde_json::{json, Value};

fn strip_err(res: &Value) -> Value {
    match res.get("err") {
        Some(e) => {
            let mut o = json!({"class": e["class"]});
            if e["class"] == "scripted" {
                o["code"] = e["code"].clone();
            }
            json!({ "err": o })
        }
        None => res.clone(),
    }
}

fn strip_reply_error(msg: &Value) -> Value {
    let mut m = msg.clone();
    if let Some(r) = m.get_mut("result") {
        if r.get("error").is_some() {
            r["error"] = json!("<text>");
        }
    }
    m
}

/// event with the world tag (and what legitimately differs between deployments) removed
fn norm(e: &Ev, with_link: bool) -> Option<Value> {
    match e {
        Ev::Enter { cid, handler, args, ctx, .. } => {
            let mut a = args.clone();
            // which contract value a handler ran on is a matter of the deployment (C02 / C06 decide it)
            if let Some(o) = a.as_object_mut() {
                o.remove("__self");
            }
            // error texts handed to reply handlers embed deployment-specific wording
            if handler.starts_with("reply:") {
                if a.get("error").is_some() {
                    a["error"] = json!("<text>");
                }
                if a.get("result").and_then(|r| r.get("error")).is_some() {
                    a["result"]["error"] = json!("<text>");
                }
                if a.get("msg").is_some() {
                    a["msg"] = strip_reply_error(&a["msg"]);
                }
            }
            Some(json!({"enter": handler, "cid": cid, "args": a, "ctx": ctx}))
        }
        Ev::Build { cid, kind, input, output, .. } => Some(json!({"build": kind, "cid": cid, "input": input, "output": output})),
        Ev::Exit { cid, handler, res, .. } => Some(json!({"exit": handler, "cid": cid, "res": res})),
        Ev::Module { what, data, .. } => Some(json!({"module": what, "data": data})),
        Ev::Deliver { addr, cid, entry, msg, ctx, ord, .. } if with_link => {
            Some(json!({"deliver": entry, "ord": ord, "addr": addr, "cid": cid, "msg": if *entry == "reply" { strip_reply_error(msg) } else { msg.clone() }, "ctx": ctx}))
        }
        Ev::Return { entry, res, ord, .. } if with_link => Some(json!({"return": entry, "ord": ord, "res": strip_err(res)})),
        _ => None,
    }
}

fn world_of(e: &Ev) -> u8 {
    match e {
        Ev::Deliver { world, .. } | Ev::Enter { world, .. } | Ev::Build { world, .. } | Ev::Exit { world, .. } | Ev::Return { world, .. } | Ev::Module { world, .. } | Ev::New { world, .. } => *world,
    }
}

fn err_brief(v: &Value) -> String {
    format!("{}:{}", v["class"].as_str().unwrap_or("?"), v.get("code").map(|c| c.to_string()).unwrap_or_else(|| v["text"].as_str().unwrap_or("").chars().take(160).collect()))
}

fn op_kind(op: &Op) -> String {
    match op {
        Op::Twin(t) => t.hid.split(':').next().unwrap_or("").to_string(),
        Op::Exec { .. } => "execute".into(),
        Op::Query { .. } => "query".into(),
        Op::Sudo { .. } => "sudo".into(),
        Op::Instantiate { .. } => "instantiate".into(),
        Op::Migrate { .. } => "migrate".into(),
        Op::Block { .. } => "block".into(),
        Op::Poke { .. } => "poke".into(),
    }
}

/// `proxy` = world 0 is driven through proxies (C12); otherwise both worlds get the same raw ops (C06)
pub fn check(plan: &Plan, rec: &RunRecord, prop: &'static str, proxy: bool, cells: &mut Cells) -> Vec<Finding> {
    let p = prop.to_lowercase();
    let mut out = vec![];
    if !rec.code_ids0.is_empty() && rec.code_ids0 != rec.code_ids {
        out.push(Finding::new(prop, &format!("{p}.code_ids"), 0, format!("storing the same programs gave code ids {:?} in world 0 but {:?} in world 1", rec.code_ids0, rec.code_ids)));
        return out;
    }
    let ops: Vec<&Op> = plan.setup.iter().chain(plan.ops.iter()).collect();
    for (i, r) in rec.ops.iter().enumerate() {
        let Some(o1) = &r.outcome1 else { continue };
        let o0 = &r.outcome;
        let kind = ops.get(i).map(|o| op_kind(o)).unwrap_or_default();
        let class = match o1 {
            Outcome::Err(e) => format!("err_{}", e["class"].as_str().unwrap_or("?")),
            Outcome::Panic(_) => "panic".to_string(),
            _ => "ok".to_string(),
        };
        cells.hit(format!("{p}.op|{kind}|{class}"));
        let mut diverged = false;
        match (o0, o1) {
            (Outcome::Addr(a, _), Outcome::Addr(b, _)) => {
                if a != b {
                    out.push(Finding::new(prop, &format!("{p}.address"), r.idx, format!("instantiate gave address {a} in world 0 but {b} in world 1")));
                }
            }
            (Outcome::Ok(a), Outcome::Ok(b)) => {
                // `execute_contract` (the raw counterpart of an exec proxy) hands out the contract's
                // data, not the protobuf envelope around it
                let mut b = b.clone();
                if proxy && kind == "execute" {
                    if let Some(d) = b["data"].as_str().and_then(|s| sylvia::cw_std::Binary::from_base64(s).ok()) {
                        b["data"] = match sylvia::cw_utils::parse_execute_response_data(d.as_slice()) {
                            Ok(r) => rt::bb::j(&r.data),
                            Err(_) => json!("<unparsable envelope>"),
                        };
                    }
                }
                let b = &b;
                if a != b {
                    out.push(Finding::new(prop, &format!("{p}.response"), r.idx, format!("[{kind}] responses differ: world 0 {a} / world 1 {b}")));
                }
            }
            (Outcome::Val(v), Outcome::Bytes(t)) => {
                let parsed: Value = t.as_str().and_then(|s| serde_json::from_str(s).ok()).unwrap_or(Value::Null);
                if *v != parsed {
                    out.push(Finding::new(prop, &format!("{p}.query_value"), r.idx, format!("proxy query returned {v} but the raw query returned {t}")));
                }
            }
            (Outcome::Bytes(a), Outcome::Bytes(b)) => {
                if a != b {
                    out.push(Finding::new(prop, &format!("{p}.query_value"), r.idx, format!("query results differ: {a} / {b}")));
                }
            }
            (Outcome::None, Outcome::None) => {}
            (Outcome::Err(e0), Outcome::Err(e1)) => {
                let scripted1 = e1["class"] == "scripted";
                if scripted1 && (e0["class"] != "scripted" || e0["code"] != e1["code"]) {
                    out.push(Finding::new(prop, &format!("{p}.error_value"), r.idx, format!("[{kind}] the handler failed with {} but world 0 surfaced {}", err_brief(e1), err_brief(e0))));
                }
                // a StdError that reached the top (from a nested StdError-typed handler, or the chain's
                // own modules) has a value too: the proxy must surface that value, not a re-wrapped text
                if proxy && e1["class"] == "std" && (e0["text"] != e1["text"] || !(e0["class"] == "std" || e0["class"] == "own")) {
                    out.push(Finding::new(prop, &format!("{p}.error_value"), r.idx, format!("[{kind}] the raw operation failed with the StdError {} but the proxy surfaced {}", err_brief(e1), err_brief(e0))));
                }
                if !proxy && e0["class"] != e1["class"] {
                    out.push(Finding::new(prop, &format!("{p}.error_class"), r.idx, format!("[{kind}] error classes differ: world 0 {} / world 1 {}", err_brief(e0), err_brief(e1))));
                }
            }
            // user code panicked in both worlds alike
            (Outcome::Panic(a), Outcome::Panic(b)) if a.contains(rt::script::SCRIPTED_PANIC) && b.contains(rt::script::SCRIPTED_PANIC) => {}
            (Outcome::Panic(pm), other) => {
                diverged = true;
                let what = match other {
                    Outcome::Err(e) => format!("raw-error-class={}", e["class"].as_str().unwrap_or("?")),
                    Outcome::Panic(_) => "raw-also-panicked".to_string(),
                    _ => "raw-succeeded".to_string(),
                };
                out.push(Finding::new(prop, &format!("{p}.world0_panic"), r.idx, format!("[{kind}-proxy {what}] world 0 panicked ({}) where world 1 gave {}", pm.chars().take(200).collect::<String>(), match other { Outcome::Err(e) => err_brief(e), _ => "a result".to_string() })));
            }
            (a, b) => {
                diverged = true;
                out.push(Finding::new(prop, &format!("{p}.outcome"), r.idx, format!("[{kind}] outcomes differ: world 0 {} / world 1 {}", crate::driver::outcome_brief(a), crate::driver::outcome_brief(b))));
            }
        }
        if diverged {
            // the worlds are no longer in lockstep; later ops would only echo this
            break;
        }
        // what ran, with which arguments and context, and what it built / returned
        let e0: Vec<Value> = r.events.iter().filter(|e| world_of(e) == 0).filter_map(|e| norm(e, !proxy)).collect();
        let e1: Vec<Value> = r.events.iter().filter(|e| world_of(e) == 1).filter_map(|e| norm(e, !proxy)).collect();
        if e0 != e1 {
            let k = e0.iter().zip(e1.iter()).position(|(a, b)| a != b).unwrap_or(e0.len().min(e1.len()));
            out.push(Finding::new(prop, &format!("{p}.trace"), r.idx, format!("[{kind}] the two worlds ran differently from event {k}: world 0 {} / world 1 {}", e0.get(k).unwrap_or(&Value::Null), e1.get(k).unwrap_or(&Value::Null))));
            break;
        }
        if let Some(s1) = &r.state1 {
            if r.state != *s1 {
                let key = r.state.iter().find(|(k, v)| s1.get(*k) != Some(v)).map(|(k, _)| k.clone()).or_else(|| s1.keys().find(|k| !r.state.contains_key(*k)).cloned()).unwrap_or_default();
                out.push(Finding::new(prop, &format!("{p}.state"), r.idx, format!("[{kind}] chain state differs after the op at {key}: world 0 {} / world 1 {}", r.state.get(&key).unwrap_or(&Value::Null), s1.get(&key).unwrap_or(&Value::Null))));
                break;
            }
        }
    }
    out
}

/// C06: an overridden kind reaches the user's function and no generated handler; a kind that is
/// not overridden never reaches an override function.
pub fn check_overrides(rec: &RunRecord, reg: &crate::reg::Reg, cells: &mut Cells) -> Vec<Finding> {
    use super::{deliveries, walk, Delivery};
    use rt::spec::Kind;
    let mut out = vec![];
    for r in &rec.ops {
        for w in [0u8, 1u8] {
            let (ds, _) = deliveries(&r.events, w);
            walk(&ds, &mut |d: &Delivery| {
                let Some(kind) = Kind::from_entry(d.entry()) else { return };
                let Some(e) = reg.get(d.cid()) else { return };
                let enters = d.enters();
                let ov = e.spec.overrides.contains(&kind);
                cells.hit(format!("c06|{}|{}|{}", d.entry(), if ov { "overridden" } else { "generated" }, if d.flavour() == 0 { "mt" } else { "ep" }));
                // a generated entry point builds the contract with its parameterless constructor for
                // every call (the reference deployment holds one value for the lifetime of the code)
                if !ov && d.flavour() == 1 && e.spec.entry_points && !enters.is_empty() {
                    let built = d.direct.iter().filter(|ev| matches!(ev, Ev::New { cid, .. } if cid == d.cid())).count();
                    cells.hit(format!("c06.constructed|{}|{}", d.entry(), built.min(2)));
                    // (the reply dispatcher builds a second value for the method call: at least one)
                    if built == 0 {
                        out.push(Finding::new("C06", "c06.constructor", r.idx, format!("{}: the generated {} entry point built the contract {} times for this call, it has to use a value of its own (handlers run: {:?})", d.cid(), d.entry(), built, enters.iter().map(|x| x.0).collect::<Vec<_>>())));
                    }
                }
                // ... and dispatches with the deps, env and info it was given
                if !ov && d.flavour() == 1 && enters.len() == 1 && d.faults().is_empty() {
                    let mut seen = enters[0].2.clone();
                    if let Some(o) = seen.as_object_mut() {
                        o.remove("gas_used");
                        o.remove("events");
                        o.remove("msg_responses");
                    }
                    if seen != *d.ctx() {
                        out.push(Finding::new("C06", "c06.ctx", r.idx, format!("{}: the generated {} entry point was given {} but {} saw {}", d.cid(), d.entry(), d.ctx(), enters[0].0, seen)));
                    }
                }
                if ov {
                    let want = format!("override:{}", d.entry());
                    // the override's own message type may reject the document: then nothing runs
                    let fine = enters.is_empty() && d.result().get("err").is_some() || (enters.len() == 1 && enters[0].0 == want);
                    if !fine {
                        out.push(Finding::new("C06", "c06.override_bypassed", r.idx, format!("{} overrides {} but a delivery to it ran {:?} (returned {})", d.cid(), d.entry(), enters.iter().map(|x| x.0).collect::<Vec<_>>(), d.result())));
                    }
                } else if enters.iter().any(|x| x.0.starts_with("override:")) {
                    out.push(Finding::new("C06", "c06.override_leaked", r.idx, format!("{} does not override {} but a delivery to it ran {:?}", d.cid(), d.entry(), enters.iter().map(|x| x.0).collect::<Vec<_>>())));
                }
            });
        }
    }
    out
}
