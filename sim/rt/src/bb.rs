//! Black box: the non-transactional, thread-local event recorder of one simulated run,
//! plus the per-run simulator state the contract link reads (fault plan, counters).
//!
//! Nothing in here draws random numbers or reads a clock.

use serde::Serialize;
use serde_json::{json, Value};
use std::cell::RefCell;
use std::collections::BTreeMap;
use sylvia::cw_std::{
    Binary, CustomQuery, Deps, Env, Event, MessageInfo, MsgResponse, Storage,
};

/// Faults the contract link can apply to one delivery.
#[derive(Clone, Debug, PartialEq, serde::Serialize, serde::Deserialize)]
#[serde(rename_all = "snake_case")]
pub enum Fault {
    /// f5: reply data dropped
    ReplyDataDrop,
    /// f6: reply data truncated to `n` bytes
    ReplyDataTrunc(usize),
    /// f6: one bit of reply data flipped (byte index modulo length, bit)
    ReplyDataFlip(usize, u8),
    /// f6: reply data replaced wholesale (envelope replaced by raw bytes / other JSON)
    ReplyDataReplace(Binary),
    /// f7: gas_used, events and msg_responses set to seeded values
    ReplyMeta {
        gas: u64,
        events: Vec<Event>,
        responses: Vec<(String, Binary)>,
    },
    /// f9 (in flight): the document is replaced by these bytes
    WireReplace(Binary),
    /// f16: the delivery carries no transaction info (as for calls made outside a transaction)
    EnvNoTx,
}

impl Fault {
    pub fn kind(&self) -> &'static str {
        match self {
            Fault::ReplyDataDrop => "f5_reply_data_drop",
            Fault::ReplyDataTrunc(_) => "f6_reply_data_trunc",
            Fault::ReplyDataFlip(..) => "f6_reply_data_flip",
            Fault::ReplyDataReplace(_) => "f6_reply_data_replace",
            Fault::ReplyMeta { .. } => "f7_reply_meta",
            Fault::WireReplace(_) => "f9_wire_inflight",
            Fault::EnvNoTx => "f16_env_no_tx",
        }
    }
}

#[derive(Clone, Debug, PartialEq, Serialize)]
#[serde(tag = "ev", rename_all = "snake_case")]
pub enum Ev {
    /// the chain hands a message to a contract (as seen at the link, after faults)
    Deliver {
        world: u8,
        op: u32,
        ord: u32,
        addr: String,
        cid: String,
        flavour: u8,
        entry: &'static str,
        /// document bytes as (lossy) text for exec/query/sudo/instantiate/migrate; reply as JSON
        msg: Value,
        ctx: Value,
        faults: Vec<&'static str>,
    },
    /// a generated handler (or an override function) started running
    Enter {
        world: u8,
        cid: String,
        handler: String,
        args: Value,
        ctx: Value,
    },
    /// a helper (executor / querier / instantiate builder / sub-message builder / remote store) was used
    Build {
        world: u8,
        cid: String,
        kind: &'static str,
        input: Value,
        output: Value,
    },
    Exit {
        world: u8,
        cid: String,
        handler: String,
        res: Value,
    },
    /// what the chain got back at the link
    Return {
        world: u8,
        op: u32,
        ord: u32,
        entry: &'static str,
        res: Value,
    },
    /// the custom chain module executed a custom message / answered a custom query
    Module { world: u8, what: &'static str, data: Value },
    /// a contract value was built with its parameterless constructor
    New { world: u8, cid: String },
}

pub struct Sim {
    pub events: Vec<Ev>,
    pub world: u8,
    pub op: u32,
    /// next delivery ordinal within (world, op)
    pub ord: u32,
    /// (op, ord) -> faults; applied in world 0 only
    pub plan: BTreeMap<(u32, u32), Vec<Fault>>,
    pub fired: BTreeMap<&'static str, u64>,
    pub recording: bool,
    /// tags handed to contract values that carry in-memory state (unique per run, never 0)
    pub next_tag: u64,
}

impl Sim {
    pub fn new() -> Self {
        Sim {
            events: Vec::new(),
            world: 0,
            op: 0,
            ord: 0,
            plan: BTreeMap::new(),
            fired: BTreeMap::new(),
            recording: true,
            next_tag: 0,
        }
    }
}

impl Default for Sim {
    fn default() -> Self {
        Self::new()
    }
}

thread_local! {
    pub static SIM: RefCell<Sim> = RefCell::new(Sim::new());
}

pub fn reset() {
    SIM.with(|s| *s.borrow_mut() = Sim::new());
}

pub fn with<R>(f: impl FnOnce(&mut Sim) -> R) -> R {
    SIM.with(|s| f(&mut s.borrow_mut()))
}

pub fn push(ev: Ev) {
    SIM.with(|s| {
        let mut s = s.borrow_mut();
        if s.recording {
            s.events.push(ev)
        }
    })
}

pub fn world() -> u8 {
    SIM.with(|s| s.borrow().world)
}

pub fn set_world(w: u8) {
    SIM.with(|s| s.borrow_mut().world = w)
}

/// start of a new top-level operation: resets the per-op delivery ordinal
pub fn begin_op(op: u32) {
    SIM.with(|s| {
        let mut s = s.borrow_mut();
        s.op = op;
        s.ord = 0;
    })
}

pub fn take_events() -> Vec<Ev> {
    SIM.with(|s| std::mem::take(&mut s.borrow_mut().events))
}

pub fn events_len() -> usize {
    SIM.with(|s| s.borrow().events.len())
}

/// JSON of a value in cosmwasm's own encoding (so Uint128 is a string, Binary base64, ...)
pub fn j<T: Serialize + ?Sized>(v: &T) -> Value {
    match sylvia::cw_std::to_json_vec(v) {
        Ok(bytes) => serde_json::from_slice(&bytes).unwrap_or(Value::String(format!(
            "<<unparsable:{}>>",
            String::from_utf8_lossy(&bytes)
        ))),
        Err(e) => Value::String(format!("<<unserialisable:{e}>>")),
    }
}

pub fn bytes_text(b: &[u8]) -> Value {
    match std::str::from_utf8(b) {
        Ok(s) => Value::String(s.to_string()),
        Err(_) => json!({ "b64": Binary::from(b).to_base64() }),
    }
}

pub const SENTINEL_KEY: &[u8] = b"__n";
pub const JOURNAL_KEY: &[u8] = b"__journal";

pub fn read_n(storage: &dyn Storage) -> u64 {
    storage
        .get(SENTINEL_KEY)
        .map(|v| {
            let mut a = [0u8; 8];
            a.copy_from_slice(&v[..8]);
            u64::from_be_bytes(a)
        })
        .unwrap_or(0)
}

/// bump the storage sentinel (done by every non-query handler on entry)
pub fn touch(storage: &mut dyn Storage) {
    let n = read_n(storage) + 1;
    storage.set(SENTINEL_KEY, &n.to_be_bytes());
}

pub fn journal(storage: &mut dyn Storage, tag: &str) {
    let mut cur = storage.get(JOURNAL_KEY).unwrap_or_default();
    cur.extend_from_slice(tag.as_bytes());
    cur.push(b';');
    storage.set(JOURNAL_KEY, &cur);
}

/// The part of a handler's context that the link can observe independently: who, with what,
/// when, where, and three probes through storage / querier / api.
pub fn ctx_echo<Q: CustomQuery>(deps: Deps<Q>, env: &Env, info: Option<&MessageInfo>) -> Value {
    let bal = deps
        .querier
        .query_balance(env.contract.address.as_str(), "ucoin")
        .map(|c| c.amount.to_string())
        .unwrap_or_else(|e| format!("ERR:{e}"));
    // (a second probe whose request carries a word the custom-type plumbing also uses)
    let bal2 = deps
        .querier
        .query_balance(env.contract.address.as_str(), "custom")
        .map(|c| c.amount.to_string())
        .unwrap_or_else(|e| format!("ERR:{e}"));
    let mut v = json!({
        "block": j(&env.block),
        "tx": j(&env.transaction),
        "contract": env.contract.address.as_str(),
        "n": read_n(deps.storage),
        "bal": bal,
        "bal2": bal2,
        "api": deps.api.addr_validate(env.contract.address.as_str()).is_ok(),
    });
    if let Some(info) = info {
        v["sender"] = Value::String(info.sender.to_string());
        v["funds"] = j(&info.funds);
    }
    v
}

pub fn reply_ctx_extra(
    mut v: Value,
    gas_used: u64,
    events: &[Event],
    msg_responses: &[MsgResponse],
) -> Value {
    v["gas_used"] = json!(gas_used);
    v["events"] = j(events);
    v["msg_responses"] = j(msg_responses);
    v
}

pub fn enter(cid: &str, handler: &str, args: Value, ctx: Value) {
    push(Ev::Enter {
        world: world(),
        cid: cid.to_string(),
        handler: handler.to_string(),
        args,
        ctx,
    })
}

pub fn build(cid: &str, kind: &'static str, input: Value, output: Value) {
    push(Ev::Build {
        world: world(),
        cid: cid.to_string(),
        kind,
        input,
        output,
    })
}

pub fn exit(cid: &str, handler: &str, res: Value) {
    push(Ev::Exit {
        world: world(),
        cid: cid.to_string(),
        handler: handler.to_string(),
        res,
    })
}

/// a fresh non-zero tag for a contract value built with something else than `new()`
pub fn next_tag() -> u64 {
    SIM.with(|s| {
        let mut s = s.borrow_mut();
        s.next_tag += 1;
        s.next_tag
    })
}

/// called by every corpus contract's `new()`
pub fn constructed(cid: &str) {
    push(Ev::New {
        world: world(),
        cid: cid.to_string(),
    })
}
