//! Scripts: behaviour-as-data. Every generated handler records that it ran and then follows
//! the script it was handed in its arguments. The scheduler therefore decides what every
//! party does (journal, fail, call peers through the real sylvia helpers, ask for replies, ...).

use crate::bb::{self, j};
use crate::cust::{CMsg, CQuery};
use crate::registry::{self, PeerFns};
use serde::{Deserialize, Serialize};
use serde_json::{json, Value};
use sylvia::cw_std::{
    Addr, BankMsg, Binary, Coin, CosmosMsg, CustomQuery, DepsMut, Empty, Env, QuerierWrapper,
    ReplyOn, Response, StdError, StdResult, Storage, SubMsg, WasmMsg,
};
use sylvia::schemars::{self, JsonSchema};

#[derive(Serialize, Deserialize, Clone, Debug, PartialEq, JsonSchema, Default)]
pub struct Script(pub Vec<Step>);

#[derive(Serialize, Deserialize, Clone, Debug, PartialEq, JsonSchema)]
#[serde(rename_all = "snake_case")]
pub enum Step {
    /// append `tag` to this contract's storage journal
    Journal { tag: String },
    /// return the contract's own error carrying `code` (steps before it have already written)
    Fail { code: u32 },
    SetData { data: Binary },
    Attr { k: String, v: String },
    Event { ty: String, k: String, v: String },
    /// add a (sub)message to the response
    Send(Send),
    /// query a peer right now through the typed querier helper
    Query {
        peer: String,
        ty: String,
        method: String,
        args: Binary,
        form: u8,
    },
    /// store a remote handle under `slot`, typed by `ty`, in form `form`
    SaveRemote {
        slot: String,
        addr: String,
        ty: String,
        form: u8,
    },
    /// load the remote handle under `slot` as type `ty` and immediately store it again under `to`
    Resave { slot: String, to: String, ty: String },
    /// write raw bytes under a storage key of this contract
    RawSet { key: String, val: Binary },
    /// the handler itself panics (user code may; what the generated code does afterwards is
    /// the question)
    Panic { tag: String },
}

#[derive(Serialize, Deserialize, Clone, Debug, PartialEq, JsonSchema)]
pub struct Send {
    pub msg: Msg,
    pub reply: ReplyReq,
    pub gas_limit: Option<u64>,
}

#[derive(Serialize, Deserialize, Clone, Debug, PartialEq, JsonSchema)]
#[serde(rename_all = "snake_case")]
pub enum Msg {
    /// execute on a peer. `ty` empty: raw `WasmMsg::Execute` with body `args`;
    /// otherwise through `Remote<ty>::executor()` (form 0 owned, 1 borrowed, 2 bare builder,
    /// 3 handle loaded from storage slot `slot`)
    Exec {
        peer: String,
        ty: String,
        method: String,
        args: Binary,
        funds: Option<Vec<Coin>>,
        form: u8,
        slot: Option<String>,
    },
    /// instantiate through the generated `InstantiateBuilder` trait of `ty` (`ty` empty: raw)
    Inst {
        code_id: u64,
        ty: String,
        args: Binary,
        label: Option<String>,
        admin: Option<String>,
        funds: Option<Vec<Coin>>,
        salt: Option<Binary>,
    },
    UpdateAdmin { peer: String, ty: String, admin: String },
    ClearAdmin { peer: String, ty: String },
    Bank { to: String, amount: Vec<Coin> },
    /// a chain-custom message (on an `Empty` handler this is `CosmosMsg::Custom(Empty{})`)
    Custom { tag: String },
    /// one of the remaining `CosmosMsg` variants, by index (staking, distribution, ibc, gov, any)
    Other { which: u8 },
}

#[derive(Serialize, Deserialize, Clone, Debug, PartialEq, JsonSchema)]
#[serde(rename_all = "snake_case")]
pub enum ReplyReq {
    None,
    /// through the generated `SubMsgMethods::<name>`; `recv` 0 = SubMsg, 1 = WasmMsg, 2 = CosmosMsg.
    /// `payload`: JSON array of the typed payload arguments, or the raw payload bytes.
    Handler {
        name: String,
        payload: Binary,
        recv: u8,
        /// SubMsg receiver only: the sub-message was already stamped once by the same builder
        /// with this payload before it is stamped with `payload`
        #[serde(default)]
        pre: Option<Binary>,
    },
    /// hand-made sub-message
    Raw {
        id: u64,
        on: u8,
        payload: Binary,
    },
}

pub fn reply_on_from(on: u8) -> ReplyOn {
    match on % 4 {
        0 => ReplyOn::Always,
        1 => ReplyOn::Success,
        2 => ReplyOn::Error,
        _ => ReplyOn::Never,
    }
}

/// What generated code has to provide per contract (or per bridged interface flavour).
pub trait Glue {
    type C: sylvia::cw_std::CustomMsg;
    type Q: CustomQuery;
    type E: From<StdError>;
    const CID: &'static str;

    fn fail(code: u32) -> Self::E;
    fn describe(e: &Self::E) -> Value;

    fn wrap_submsg(
        _sm: SubMsg<Self::C>,
        name: &str,
        _payload: &[u8],
    ) -> StdResult<SubMsg<Self::C>> {
        Err(StdError::generic_err(format!(
            "harness: no reply builder `{name}` on {}",
            Self::CID
        )))
    }
    fn wrap_wasm(_m: WasmMsg, name: &str, _payload: &[u8]) -> StdResult<SubMsg<Self::C>> {
        Err(StdError::generic_err(format!(
            "harness: no reply builder `{name}` on {}",
            Self::CID
        )))
    }
    fn wrap_cosmos(
        _m: CosmosMsg<Self::C>,
        name: &str,
        _payload: &[u8],
    ) -> StdResult<SubMsg<Self::C>> {
        Err(StdError::generic_err(format!(
            "harness: no reply builder `{name}` on {}",
            Self::CID
        )))
    }
    fn custom_msg(tag: &str) -> CosmosMsg<Self::C>;
    fn query_peer(
        f: &PeerFns,
        q: &QuerierWrapper<Self::Q>,
        addr: &Addr,
        form: u8,
        method: &str,
        args: &[u8],
    ) -> StdResult<Binary>;
}

/// helpers for the two chain flavours, used by generated `Glue` impls
pub fn custom_msg_empty(_tag: &str) -> CosmosMsg<Empty> {
    CosmosMsg::Custom(Empty {})
}
pub fn custom_msg_chain(tag: &str) -> CosmosMsg<CMsg> {
    CosmosMsg::Custom(CMsg::Note {
        tag: tag.to_string(),
    })
}
pub fn query_peer_empty(
    f: &PeerFns,
    q: &QuerierWrapper<Empty>,
    addr: &Addr,
    form: u8,
    method: &str,
    args: &[u8],
) -> StdResult<Binary> {
    (f.query_e)(q, addr, form, method, args)
}
pub fn query_peer_chain(
    f: &PeerFns,
    q: &QuerierWrapper<CQuery>,
    addr: &Addr,
    form: u8,
    method: &str,
    args: &[u8],
) -> StdResult<Binary> {
    (f.query_c)(q, addr, form, method, args)
}

fn peer(ty: &str) -> StdResult<&'static PeerFns> {
    registry::get(ty).ok_or_else(|| StdError::generic_err(format!("harness: unknown peer type `{ty}`")))
}

#[cfg(feature = "full")]
fn other_msg<C>(which: u8) -> CosmosMsg<C> {
    use sylvia::cw_std::{AnyMsg, DistributionMsg, GovMsg, IbcMsg, StakingMsg, VoteOption};
    match which % 6 {
        5 => {
            // the deprecated pre-2.0 spelling of `Any`
            #[allow(deprecated)]
            CosmosMsg::Stargate {
                type_url: "/verif.Stargate".to_string(),
                value: Binary::from(b"stargate-bytes".to_vec()),
            }
        }
        0 => CosmosMsg::Staking(StakingMsg::Delegate {
            validator: "validator-x".to_string(),
            amount: Coin::new(1u128, "ucoin"),
        }),
        1 => CosmosMsg::Distribution(DistributionMsg::SetWithdrawAddress {
            address: "withdraw-x".to_string(),
        }),
        2 => CosmosMsg::Ibc(IbcMsg::CloseChannel {
            channel_id: "channel-7".to_string(),
        }),
        3 => CosmosMsg::Gov(GovMsg::Vote {
            proposal_id: 7,
            option: VoteOption::Abstain,
        }),
        _ => CosmosMsg::Any(AnyMsg {
            type_url: "/verif.Any".to_string(),
            value: Binary::from(b"any-bytes".to_vec()),
        }),
    }
}

/// the lean build configuration (sylvia's default features): staking and distribution only
#[cfg(not(feature = "full"))]
fn other_msg<C>(which: u8) -> CosmosMsg<C> {
    use sylvia::cw_std::{DistributionMsg, StakingMsg};
    match which % 3 {
        0 => CosmosMsg::Staking(StakingMsg::Delegate {
            validator: "validator-x".to_string(),
            amount: Coin::new(1u128, "ucoin"),
        }),
        1 => CosmosMsg::Distribution(DistributionMsg::SetWithdrawAddress {
            address: "withdraw-x".to_string(),
        }),
        _ => CosmosMsg::Distribution(DistributionMsg::WithdrawDelegatorReward {
            validator: "validator-x".to_string(),
        }),
    }
}

enum Built<C> {
    Wasm(WasmMsg),
    Cosmos(CosmosMsg<C>),
}

fn build_msg<G: Glue>(storage: &dyn Storage, msg: &Msg) -> StdResult<Built<G::C>> {
    Ok(match msg {
        Msg::Exec {
            peer: p,
            ty,
            method,
            args,
            funds,
            form,
            slot,
        } => {
            if ty.is_empty() {
                Built::Wasm(WasmMsg::Execute {
                    contract_addr: p.clone(),
                    msg: args.clone(),
                    funds: funds.clone().unwrap_or_default(),
                })
            } else {
                let f = peer(ty)?;
                let addr = Addr::unchecked(p.clone());
                let out = (f.exec)(
                    storage,
                    &addr,
                    *form,
                    slot.as_deref(),
                    method,
                    args.as_slice(),
                    funds.clone(),
                )?;
                let slot_raw = match (form, slot) {
                    (3.., Some(s)) => storage.get(s.as_bytes()).map(|b| bb::bytes_text(&b)).unwrap_or(Value::Null),
                    _ => Value::Null,
                };
                bb::build(
                    G::CID,
                    "executor",
                    json!({"peer": p, "ty": ty, "method": method, "args": bb::bytes_text(args.as_slice()),
                           "funds": j(funds), "form": form, "slot": slot, "slot_raw": slot_raw}),
                    j(&out),
                );
                Built::Wasm(out)
            }
        }
        Msg::Inst {
            code_id,
            ty,
            args,
            label,
            admin,
            funds,
            salt,
        } => {
            if ty.is_empty() {
                Built::Wasm(WasmMsg::Instantiate {
                    admin: admin.clone(),
                    code_id: *code_id,
                    msg: args.clone(),
                    funds: funds.clone().unwrap_or_default(),
                    label: label.clone().unwrap_or_default(),
                })
            } else {
                let f = peer(ty)?;
                let inst = f
                    .inst
                    .ok_or_else(|| StdError::generic_err("harness: peer has no instantiate builder"))?;
                let out = inst(
                    *code_id,
                    args.as_slice(),
                    label.as_deref(),
                    admin.as_deref(),
                    funds.clone(),
                    salt.clone(),
                )?;
                bb::build(
                    G::CID,
                    "instantiate_builder",
                    json!({"code_id": code_id, "ty": ty, "args": bb::bytes_text(args.as_slice()), "label": label,
                           "admin": admin, "funds": j(funds), "salt": j(salt)}),
                    j(&out),
                );
                Built::Wasm(out)
            }
        }
        Msg::UpdateAdmin { peer: p, ty, admin } => {
            let f = peer(ty)?;
            let out = (f.admin)(&Addr::unchecked(p.clone()), Some(admin));
            bb::build(
                G::CID,
                "admin",
                json!({"peer": p, "ty": ty, "admin": admin}),
                j(&out),
            );
            Built::Wasm(out)
        }
        Msg::ClearAdmin { peer: p, ty } => {
            let f = peer(ty)?;
            let out = (f.admin)(&Addr::unchecked(p.clone()), None);
            bb::build(
                G::CID,
                "admin",
                json!({"peer": p, "ty": ty, "admin": Value::Null}),
                j(&out),
            );
            Built::Wasm(out)
        }
        Msg::Bank { to, amount } => Built::Cosmos(CosmosMsg::Bank(BankMsg::Send {
            to_address: to.clone(),
            amount: amount.clone(),
        })),
        Msg::Custom { tag } => Built::Cosmos(G::custom_msg(tag)),
        Msg::Other { which } => Built::Cosmos(other_msg(*which)),
    })
}

fn build_send<G: Glue>(storage: &dyn Storage, s: &Send) -> StdResult<SubMsg<G::C>> {
    let built = build_msg::<G>(storage, &s.msg)?;
    Ok(match &s.reply {
        ReplyReq::None => {
            let mut sm = match built {
                Built::Wasm(w) => SubMsg::new(w),
                Built::Cosmos(c) => SubMsg::new(c),
            };
            sm.gas_limit = s.gas_limit;
            sm
        }
        ReplyReq::Raw { id, on, payload } => {
            let msg: CosmosMsg<G::C> = match built {
                Built::Wasm(w) => w.into(),
                Built::Cosmos(c) => c,
            };
            SubMsg {
                id: *id,
                msg,
                payload: payload.clone(),
                gas_limit: s.gas_limit,
                reply_on: reply_on_from(*on),
            }
        }
        ReplyReq::Handler {
            name,
            payload,
            recv,
            pre,
        } => {
            let (inner, out) = match (recv % 3, built) {
                (0, b) => {
                    // an existing sub-message, with decoy id / payload / trigger that the
                    // builder has to overwrite and a gas limit it has to keep
                    let msg: CosmosMsg<G::C> = match b {
                        Built::Wasm(w) => w.into(),
                        Built::Cosmos(c) => c,
                    };
                    // (the decoy trigger comes from the upper part of `recv`)
                    let sm = SubMsg {
                        id: 0xdead_beef,
                        msg,
                        payload: Binary::from(b"decoy".to_vec()),
                        gas_limit: s.gas_limit,
                        reply_on: match (recv / 3) % 4 {
                            0 => ReplyOn::Never,
                            1 => ReplyOn::Success,
                            2 => ReplyOn::Error,
                            _ => ReplyOn::Always,
                        },
                    };
                    let inner = j(&sm.msg);
                    let sm = match pre {
                        Some(p0) => G::wrap_submsg(sm, name, p0.as_slice())?,
                        None => sm,
                    };
                    (inner, G::wrap_submsg(sm, name, payload.as_slice())?)
                }
                (1, Built::Wasm(w)) => {
                    let c: CosmosMsg<G::C> = w.clone().into();
                    (j(&c), G::wrap_wasm(w, name, payload.as_slice())?)
                }
                (_, b) => {
                    let msg: CosmosMsg<G::C> = match b {
                        Built::Wasm(w) => w.into(),
                        Built::Cosmos(c) => c,
                    };
                    (j(&msg), G::wrap_cosmos(msg, name, payload.as_slice())?)
                }
            };
            let recv_eff = match (recv % 3, &s.msg) {
                (0, _) => 0,
                (1, Msg::Bank { .. }) | (1, Msg::Custom { .. }) | (1, Msg::Other { .. }) => 2,
                (r, _) => r,
            };
            bb::build(
                G::CID,
                "submsg",
                json!({"name": name, "payload": bb::bytes_text(payload.as_slice()), "recv": recv_eff,
                       "gas_limit": s.gas_limit, "msg": inner, "restamped": pre.is_some()}),
                j(&out),
            );
            out
        }
    })
}

/// Follow the script. Effects on storage happen step by step, so a later `Fail` leaves
/// earlier journal entries for the chain to roll back.
pub fn run<G: Glue>(
    deps: DepsMut<G::Q>,
    _env: &Env,
    script: &Script,
) -> Result<Response<G::C>, G::E> {
    let mut resp: Response<G::C> = Response::new();
    for step in &script.0 {
        match step {
            Step::Journal { tag } => bb::journal(deps.storage, tag),
            Step::Fail { code } => return Err(G::fail(*code)),
            Step::SetData { data } => resp = resp.set_data(data.clone()),
            Step::Attr { k, v } => resp = resp.add_attribute(k, v),
            Step::Event { ty, k, v } => {
                // (an empty key stands for an event without any attribute)
                resp = resp.add_event(if k.is_empty() { sylvia::cw_std::Event::new(ty) } else { sylvia::cw_std::Event::new(ty).add_attribute(k, v) })
            }
            Step::Send(s) => {
                let sm = build_send::<G>(deps.storage, s)?;
                resp = resp.add_submessage(sm);
            }
            Step::Query {
                peer: p,
                ty,
                method,
                args,
                form,
            } => {
                let f = peer(ty)?;
                let addr = Addr::unchecked(p.clone());
                let out = G::query_peer(f, &deps.querier, &addr, *form, method, args.as_slice());
                bb::build(
                    G::CID,
                    "querier",
                    json!({"peer": p, "ty": ty, "method": method, "args": bb::bytes_text(args.as_slice()), "form": form}),
                    match &out {
                        Ok(b) => json!({"ok": bb::bytes_text(b.as_slice())}),
                        Err(e) => json!({"err": e.to_string()}),
                    },
                );
                out?;
            }
            Step::SaveRemote {
                slot,
                addr,
                ty,
                form,
            } => {
                let f = peer(ty)?;
                (f.save_remote)(deps.storage, slot, &Addr::unchecked(addr.clone()), *form)?;
                bb::build(
                    G::CID,
                    "remote_save",
                    json!({"slot": slot, "addr": addr, "ty": ty, "form": form}),
                    bb::bytes_text(&deps.storage.get(slot.as_bytes()).unwrap_or_default()),
                );
            }
            Step::Resave { slot, to, ty } => {
                let f = peer(ty)?;
                let before = deps.storage.get(slot.as_bytes()).map(|b| bb::bytes_text(&b)).unwrap_or(Value::Null);
                let a = match (f.resave_remote)(deps.storage, slot, to) {
                    Ok(a) => a,
                    Err(e) => {
                        // a failed load is an observation too
                        bb::build(
                            G::CID,
                            "remote_resave",
                            json!({"slot": slot, "to": to, "ty": ty, "loaded": Value::Null, "raw": before, "error": e.to_string()}),
                            Value::Null,
                        );
                        return Err(e.into());
                    }
                };
                bb::build(
                    G::CID,
                    "remote_resave",
                    json!({"slot": slot, "to": to, "ty": ty, "loaded": a.as_str(), "raw": before}),
                    bb::bytes_text(&deps.storage.get(to.as_bytes()).unwrap_or_default()),
                );
            }
            Step::RawSet { key, val } => deps.storage.set(key.as_bytes(), val.as_slice()),
            Step::Panic { tag } => panic!("{}{}", SCRIPTED_PANIC, tag),
        }
    }
    Ok(resp)
}

/// marker of a panic raised by a script step (not by generated code)
pub const SCRIPTED_PANIC: &str = "scripted-panic:";

/// The read-only part of a script, for query handlers that take one: ask the peers named by
/// its `Query` steps through the typed querier helpers (nested queries), fail where it says so.
/// Returns the answers, in order.
pub fn run_queries<G: Glue>(deps: sylvia::cw_std::Deps<G::Q>, script: &Script) -> Result<Value, G::E> {
    let mut answers = vec![];
    for step in &script.0 {
        match step {
            Step::Fail { code } => return Err(G::fail(*code)),
            Step::Query { peer: p, ty, method, args, form } => {
                let f = peer(ty)?;
                let addr = Addr::unchecked(p.clone());
                let out = G::query_peer(f, &deps.querier, &addr, *form, method, args.as_slice());
                bb::build(
                    G::CID,
                    "querier",
                    json!({"peer": p, "ty": ty, "method": method, "args": bb::bytes_text(args.as_slice()), "form": form}),
                    match &out {
                        Ok(b) => json!({"ok": bb::bytes_text(b.as_slice())}),
                        Err(e) => json!({"err": e.to_string()}),
                    },
                );
                answers.push(bb::bytes_text(out?.as_slice()));
            }
            _ => {}
        }
    }
    Ok(Value::Array(answers))
}

/// raw reply payloads carry `{"nonce":..,"script":[..]}`; anything else means "no script"
pub fn script_from_raw_payload(payload: &[u8]) -> Script {
    #[derive(Deserialize)]
    struct P {
        #[serde(default)]
        script: Script,
    }
    serde_json::from_slice::<P>(payload)
        .map(|p| p.script)
        .unwrap_or_default()
}

pub fn exit_value<C: Serialize, E>(r: &Result<Response<C>, E>, describe: impl Fn(&E) -> Value) -> Value {
    match r {
        Ok(resp) => json!({ "ok": j(resp) }),
        Err(e) => json!({ "err": describe(e) }),
    }
}

/// pull one named argument out of a JSON object of arguments, in cosmwasm's decoding
pub fn arg<T: serde::de::DeserializeOwned>(v: &Value, name: &str) -> StdResult<T> {
    let sub = v
        .get(name)
        .ok_or_else(|| StdError::generic_err(format!("harness: missing argument `{name}`")))?;
    let bytes = serde_json::to_vec(sub).map_err(|e| StdError::generic_err(e.to_string()))?;
    sylvia::cw_std::from_json(&bytes)
}

pub fn arg_idx<T: serde::de::DeserializeOwned>(v: &Value, idx: usize) -> StdResult<T> {
    let sub = v
        .get(idx)
        .ok_or_else(|| StdError::generic_err(format!("harness: missing payload element {idx}")))?;
    let bytes = serde_json::to_vec(sub).map_err(|e| StdError::generic_err(e.to_string()))?;
    sylvia::cw_std::from_json(&bytes)
}

pub fn parse_args(args: &[u8]) -> StdResult<Value> {
    serde_json::from_slice(args).map_err(|e| StdError::generic_err(format!("harness: args not JSON: {e}")))
}
