//! Argument / payload / response types of the closed type set the corpus draws from.
use crate::script::Script;
use serde::{Deserialize, Serialize};
use sylvia::schemars::{self, JsonSchema};

#[derive(Serialize, Deserialize, Clone, Debug, PartialEq, JsonSchema)]
pub struct Pt {
    pub x: i32,
    pub y: String,
}

#[derive(Serialize, Deserialize, Clone, Debug, PartialEq, JsonSchema)]
#[serde(rename_all = "snake_case")]
pub enum Kd {
    A {},
    B { n: u32 },
}

/// a value whose JSON form nests as deep as it likes
#[derive(Serialize, Deserialize, Clone, Debug, PartialEq, JsonSchema)]
pub struct Tree {
    pub v: u32,
    pub kids: Vec<Tree>,
}

/// a type with a (defaulted) type parameter of its own, to stand in for a contract's parameter
#[derive(Serialize, Deserialize, Clone, Debug, PartialEq, JsonSchema)]
pub struct Boxed<T = sylvia::cw_std::Empty> {
    pub v: T,
}

/// a value without members (its encoding is `{}`, its size in memory zero)
#[derive(Serialize, Deserialize, Clone, Debug, PartialEq, JsonSchema, Default)]
pub struct Nil {}

/// typed reply payload carrying a nonce and the reply handler's script
#[derive(Serialize, Deserialize, Clone, Debug, PartialEq, JsonSchema)]
pub struct Pay {
    pub nonce: u64,
    pub script: Script,
}

#[derive(Serialize, Deserialize, Clone, Debug, PartialEq, JsonSchema)]
pub struct QResp {
    pub tag: String,
    pub n: u64,
}

/// a response type whose values have no JSON encoding once `pairs` is not empty (map keys
/// must be strings): a query returning it fails at the encoding step, after the handler ran
#[derive(Serialize, Deserialize, Clone, Debug, PartialEq, JsonSchema)]
pub struct Unenc {
    pub label: String,
    pub pairs: std::collections::BTreeMap<(u8, u8), u64>,
}

/// default of handler parameters declared `#[serde(default = "rt::types::some7")]`: leaving
/// the member out and sending `null` are two different things for such a parameter
pub fn some7() -> Option<u32> {
    Some(7)
}
pub const SOME7_JSON: &str = "7";

pub fn some_word() -> Option<String> {
    Some("dflt".to_string())
}

/// FNV-1a, used by echo queries to derive a value from their arguments
pub fn hash64(s: &str) -> u64 {
    let mut h: u64 = 0xcbf29ce484222325;
    for b in s.as_bytes() {
        h ^= *b as u64;
        h = h.wrapping_mul(0x100000001b3);
    }
    h
}

pub fn try_part<T: serde::de::DeserializeOwned + Serialize>(bytes: &[u8]) -> Result<String, String> {
    match sylvia::cw_std::from_json::<T>(bytes) {
        // decoding is the verdict; a value that cannot be encoded again is still an accepted document
        Ok(v) => Ok(sylvia::cw_std::to_json_string(&v).unwrap_or_else(|e| format!("<<decoded, but cannot be encoded again: {e}>>"))),
        Err(e) => Err(e.to_string()),
    }
}
