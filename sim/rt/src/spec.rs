//! Static description of corpus programs, read by the oracles. Generated next to each program
//! by gen/gen_corpus.py from the same model the program text is printed from (never derived
//! from sylvia's output).

use crate::cust::{CMsg, CQuery};
use crate::registry::PeerFns;
use sylvia::cw_multi_test::Contract;
use sylvia::cw_std::Empty;

#[derive(Debug, Clone, Copy, PartialEq, Eq, PartialOrd, Ord)]
pub enum Kind {
    Instantiate,
    Exec,
    Query,
    Sudo,
    Migrate,
    Reply,
}

impl Kind {
    pub const ALL: [Kind; 6] = [
        Kind::Instantiate,
        Kind::Exec,
        Kind::Query,
        Kind::Sudo,
        Kind::Migrate,
        Kind::Reply,
    ];
    pub fn entry(self) -> &'static str {
        match self {
            Kind::Instantiate => "instantiate",
            Kind::Exec => "execute",
            Kind::Query => "query",
            Kind::Sudo => "sudo",
            Kind::Migrate => "migrate",
            Kind::Reply => "reply",
        }
    }
    pub fn from_entry(e: &str) -> Option<Kind> {
        Kind::ALL.into_iter().find(|k| k.entry() == e)
    }
}

#[derive(Debug)]
pub struct ArgSpec {
    pub name: &'static str,
    pub ty: &'static str,
    /// JSON text of the value a forwarded `#[serde(default = "..")]` gives an omitted member
    /// ("" = the parameter carries no such attribute)
    pub default: &'static str,
}

/// how a reply method takes the sub-message's data
#[derive(Debug, Clone, Copy, PartialEq, Eq, PartialOrd, Ord)]
pub enum DataMode {
    /// no `#[sv::data]` parameter
    Unmarked,
    Raw,
    RawOpt,
    Typed,
    Opt,
    Instantiate,
    InstantiateOpt,
}

#[derive(Debug, Clone, Copy, PartialEq, Eq, PartialOrd, Ord)]
pub enum On {
    Success,
    Error,
    Always,
}

#[derive(Debug)]
pub struct ReplySpec {
    /// handler names (reply ids) this method serves
    pub names: &'static [&'static str],
    pub on: On,
    pub data: DataMode,
    /// inner type of a typed data parameter ("" when not typed)
    pub data_ty: &'static str,
    /// `#[sv::payload(raw)]`
    pub payload_raw: bool,
    /// payload parameters (name, type), in order
    pub payload: &'static [ArgSpec],
}

#[derive(Debug)]
pub struct HandlerSpec {
    pub kind: Kind,
    /// "" for the contract's own impl block, else the interface name
    pub part: &'static str,
    pub fn_name: &'static str,
    /// wire name per the property (the method's snake_case name); "" for struct messages / replies
    pub wire: &'static str,
    /// a second wire name forwarded to the variant with `#[sv::attr(serde(alias = ".."))]` ("" = none)
    pub alias: &'static str,
    /// whether the name has the regular shape (words of [a-z]+[0-9]*, single underscores)
    pub regular: bool,
    pub args: &'static [ArgSpec],
    pub ret: &'static str,
    pub reply: Option<ReplySpec>,
}

impl HandlerSpec {
    /// unique id of a handler inside its contract
    pub fn id(&self) -> String {
        format!("{}:{}:{}", self.kind.entry(), self.part, self.fn_name)
    }
}

#[derive(Debug)]
pub struct PartSpec {
    pub name: &'static str,
    pub custom_msg: bool,
    pub custom_query: bool,
    /// registry key of the `dyn Interface<..>` handle type for this part ("" for the contract itself)
    pub dyn_ty: &'static str,
}

#[derive(Debug, Clone, Copy, PartialEq, Eq)]
pub enum ErrTy {
    Std,
    Custom,
}

#[derive(Debug)]
pub struct ContractSpec {
    /// globally unique type id, e.g. "f1::plain0"
    pub cid: &'static str,
    pub family: &'static str,
    pub custom_chain: bool,
    pub parts: &'static [PartSpec],
    pub handlers: &'static [HandlerSpec],
    /// kinds whose entry point the user overrides
    pub overrides: &'static [Kind],
    pub replies_feature: bool,
    pub err: ErrTy,
    pub entry_points: bool,
    pub tags: &'static [&'static str],
}

impl ContractSpec {
    pub fn handler(&self, id: &str) -> Option<&'static HandlerSpec> {
        self.handlers.iter().find(|h| h.id() == id)
    }
    pub fn of_kind(&self, k: Kind) -> impl Iterator<Item = &'static HandlerSpec> {
        self.handlers.iter().filter(move |h| h.kind == k)
    }
    pub fn has_tag(&self, t: &str) -> bool {
        self.tags.iter().any(|x| *x == t)
    }
}

#[derive(Debug, Clone, PartialEq)]
pub enum ErrClass {
    /// the contract's own error type, scripted variant
    Scripted(u32),
    /// the contract's own error type (or StdError when that is the declared type), other
    Own(String),
    /// a bare StdError inside a contract whose declared type is not StdError
    Std(String),
    /// anything else (chain errors, foreign types)
    Other(String),
}

pub type StoreE = fn(u8) -> Option<Box<dyn Contract<Empty, Empty>>>;
pub type StoreC = fn(u8) -> Option<Box<dyn Contract<CMsg, CQuery>>>;

/// result of asking every part of a contract-level message whether it accepts a document
pub struct PartVerdict {
    pub part: &'static str,
    /// Ok(re-encoded JSON of the decoded part value) or Err(text)
    pub res: Result<String, String>,
}

pub struct Entry {
    pub spec: &'static ContractSpec,
    pub store_e: Option<StoreE>,
    pub store_c: Option<StoreC>,
    pub classify: fn(&anyhow::Error) -> ErrClass,
    pub peer: Option<PeerFns>,
    /// (kind entry name, bytes) -> verdict of each part type of that kind
    pub parts_accept: fn(&str, &[u8]) -> Vec<PartVerdict>,
    /// (kind entry name, bytes) -> wrapper decode + re-encode
    pub wrapper_roundtrip: fn(&str, &[u8]) -> Result<String, String>,
    /// names published by `<entry>_messages()` of every part
    pub name_lists: fn(&str) -> Vec<(&'static str, Vec<String>)>,
    pub reply_ids: fn() -> Vec<(&'static str, u64)>,
    pub proxy: Option<crate::proxy::ProxyFns>,
}
