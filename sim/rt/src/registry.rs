//! Global, read-only table of the typed helper glue generated for every corpus contract and
//! interface (keyed by type id). Filled once at start-up by the simulator binary.

use crate::cust::CQuery;
use std::collections::BTreeMap;
use std::sync::OnceLock;
use sylvia::cw_std::{Addr, Binary, Coin, Empty, QuerierWrapper, StdResult, Storage, WasmMsg};

pub type ExecFn = fn(
    &dyn Storage,
    &Addr,
    u8,
    Option<&str>,
    &str,
    &[u8],
    Option<Vec<Coin>>,
) -> StdResult<WasmMsg>;
pub type QueryEFn = fn(&QuerierWrapper<Empty>, &Addr, u8, &str, &[u8]) -> StdResult<Binary>;
pub type QueryCFn = fn(&QuerierWrapper<CQuery>, &Addr, u8, &str, &[u8]) -> StdResult<Binary>;
pub type InstFn = fn(
    u64,
    &[u8],
    Option<&str>,
    Option<&str>,
    Option<Vec<Coin>>,
    Option<Binary>,
) -> StdResult<WasmMsg>;

#[derive(Clone, Copy)]
pub struct PeerFns {
    pub exec: ExecFn,
    pub query_e: QueryEFn,
    pub query_c: QueryCFn,
    pub inst: Option<InstFn>,
    pub admin: fn(&Addr, Option<&str>) -> WasmMsg,
    pub save_remote: fn(&mut dyn Storage, &str, &Addr, u8) -> StdResult<()>,
    pub resave_remote: fn(&mut dyn Storage, &str, &str) -> StdResult<Addr>,
    /// schema name of `Remote<'static, this type>`
    pub schema_name: fn() -> String,
    /// registers `Remote<'static, this type>` in a schema generator shared with other handle types
    pub schema_register: fn(&mut sylvia::schemars::gen::SchemaGenerator),
    /// the root schema of `Remote<'static, this type>` from a generator of its own, as JSON
    pub schema_root: fn() -> String,
}

static REG: OnceLock<BTreeMap<String, PeerFns>> = OnceLock::new();

pub fn install(map: BTreeMap<String, PeerFns>) {
    let _ = REG.set(map);
}

pub fn get(ty: &str) -> Option<&'static PeerFns> {
    REG.get().and_then(|m| m.get(ty))
}

pub fn all() -> Vec<(&'static String, &'static PeerFns)> {
    REG.get().map(|m| m.iter().collect()).unwrap_or_default()
}
