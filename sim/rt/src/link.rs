//! The contract link: the only path between the chain and a contract. Records every delivery
//! and what came back, and applies the faults scheduled for that delivery.

use crate::bb::{self, bytes_text, ctx_echo, j, Ev, Fault};
use crate::spec::ErrClass;
use serde_json::{json, Value};
use sylvia::cw_multi_test::Contract;
use sylvia::cw_std::{
    Binary, Checksum, CustomMsg, CustomQuery, Deps, DepsMut, Env, MessageInfo, MsgResponse, Reply,
    Response, SubMsgResult,
};

pub const FLAVOUR_MT: u8 = 0;
pub const FLAVOUR_EP: u8 = 1;

pub struct FaultLink<C: CustomMsg, Q: CustomQuery> {
    pub inner: Box<dyn Contract<C, Q>>,
    pub cid: &'static str,
    pub flavour: u8,
    pub classify: fn(&anyhow::Error) -> ErrClass,
}

pub fn err_value(classify: fn(&anyhow::Error) -> ErrClass, e: &anyhow::Error) -> Value {
    match classify(e) {
        ErrClass::Scripted(c) => json!({"class": "scripted", "code": c}),
        ErrClass::Own(t) => json!({"class": "own", "text": t}),
        ErrClass::Std(t) => json!({"class": "std", "text": t}),
        ErrClass::Other(t) => json!({"class": "other", "text": t}),
    }
}

fn take_faults() -> (u32, u32, u8, Vec<Fault>) {
    bb::with(|s| {
        let op = s.op;
        let ord = s.ord;
        s.ord += 1;
        let f = if s.world == 0 {
            s.plan.get(&(op, ord)).cloned().unwrap_or_default()
        } else {
            vec![]
        };
        (op, ord, s.world, f)
    })
}

/// A real chain stops a transaction that keeps calling contracts (gas). The simulated chain
/// does so after this many deliveries within one operation: the delivery is refused before the
/// contract is called (no delivery is recorded; the caller sees a failed call).
pub const MAX_DELIVERIES_PER_OP: u32 = 300;

fn out_of_gas() -> Option<anyhow::Error> {
    let over = bb::with(|s| s.ord >= MAX_DELIVERIES_PER_OP);
    if over {
        fired("f15_out_of_gas");
        bb::push(Ev::Module { world: bb::world(), what: "out_of_gas", data: Value::Null });
        Some(anyhow::anyhow!("simulated chain: out of gas (too many contract calls in one operation)"))
    } else {
        None
    }
}

fn fired(kind: &'static str) {
    bb::with(|s| *s.fired.entry(kind).or_insert(0) += 1);
}

impl<C: CustomMsg, Q: CustomQuery> FaultLink<C, Q> {
    fn deliver_bytes(
        &self,
        entry: &'static str,
        env: &Env,
        ctx: Value,
        msg: Vec<u8>,
    ) -> (u32, u32, Vec<u8>) {
        let (op, ord, world, faults) = take_faults();
        let mut msg = msg;
        let mut names = vec![];
        for f in faults {
            if let Fault::WireReplace(b) = &f {
                msg = b.to_vec();
                names.push(f.kind());
                fired(f.kind());
            }
        }
        bb::push(Ev::Deliver {
            world,
            op,
            ord,
            addr: env.contract.address.to_string(),
            cid: self.cid.to_string(),
            flavour: self.flavour,
            entry,
            msg: bytes_text(&msg),
            ctx,
            faults: names,
        });
        (op, ord, msg)
    }

    fn ret<T: serde::Serialize>(
        &self,
        op: u32,
        ord: u32,
        entry: &'static str,
        r: &anyhow::Result<T>,
    ) {
        let res = match r {
            Ok(v) => json!({ "ok": j(v) }),
            Err(e) => json!({ "err": err_value(self.classify, e) }),
        };
        bb::push(Ev::Return {
            world: bb::world(),
            op,
            ord,
            entry,
            res,
        });
    }
}

fn mutate_reply(mut msg: Reply, faults: Vec<Fault>, names: &mut Vec<&'static str>) -> Reply {
    for f in faults {
        let kind = f.kind();
        let mut applied = false;
        match f {
            Fault::ReplyMeta {
                gas,
                events,
                responses,
            } => {
                msg.gas_used = gas;
                if let SubMsgResult::Ok(r) = &mut msg.result {
                    r.events = events;
                    r.msg_responses = responses
                        .into_iter()
                        .map(|(type_url, value)| MsgResponse { type_url, value })
                        .collect();
                }
                applied = true;
            }
            Fault::ReplyDataDrop => {
                #[allow(deprecated)]
                if let SubMsgResult::Ok(r) = &mut msg.result {
                    if r.data.is_some() {
                        r.data = None;
                        applied = true;
                    }
                }
            }
            Fault::ReplyDataTrunc(n) => {
                #[allow(deprecated)]
                if let SubMsgResult::Ok(r) = &mut msg.result {
                    if let Some(d) = &r.data {
                        if !d.is_empty() {
                            let keep = n % d.len();
                            r.data = Some(Binary::from(d.as_slice()[..keep].to_vec()));
                            applied = true;
                        }
                    }
                }
            }
            Fault::ReplyDataFlip(i, bit) => {
                #[allow(deprecated)]
                if let SubMsgResult::Ok(r) = &mut msg.result {
                    if let Some(d) = &r.data {
                        if !d.is_empty() {
                            let mut v = d.to_vec();
                            let k = i % v.len();
                            v[k] ^= 1 << (bit % 8);
                            r.data = Some(Binary::from(v));
                            applied = true;
                        }
                    }
                }
            }
            Fault::ReplyDataReplace(b) => {
                #[allow(deprecated)]
                if let SubMsgResult::Ok(r) = &mut msg.result {
                    r.data = Some(b);
                    applied = true;
                }
            }
            Fault::WireReplace(_) | Fault::EnvNoTx => {}
        }
        if applied {
            names.push(kind);
            fired(kind);
        }
    }
    msg
}

impl<C: CustomMsg, Q: CustomQuery> Contract<C, Q> for FaultLink<C, Q> {
    fn execute(
        &self,
        deps: DepsMut<Q>,
        env: Env,
        info: MessageInfo,
        msg: Vec<u8>,
    ) -> anyhow::Result<Response<C>> {
        if let Some(e) = out_of_gas() {
            return Err(e);
        }
        let ctx = ctx_echo(deps.as_ref(), &env, Some(&info));
        let (op, ord, msg) = self.deliver_bytes("execute", &env, ctx, msg);
        let r = self.inner.execute(deps, env, info, msg);
        self.ret(op, ord, "execute", &r);
        r
    }

    fn instantiate(
        &self,
        deps: DepsMut<Q>,
        env: Env,
        info: MessageInfo,
        msg: Vec<u8>,
    ) -> anyhow::Result<Response<C>> {
        if let Some(e) = out_of_gas() {
            return Err(e);
        }
        let ctx = ctx_echo(deps.as_ref(), &env, Some(&info));
        let (op, ord, msg) = self.deliver_bytes("instantiate", &env, ctx, msg);
        let r = self.inner.instantiate(deps, env, info, msg);
        self.ret(op, ord, "instantiate", &r);
        r
    }

    fn query(&self, deps: Deps<Q>, env: Env, msg: Vec<u8>) -> anyhow::Result<Binary> {
        if let Some(e) = out_of_gas() {
            return Err(e);
        }
        let ctx = ctx_echo(deps, &env, None);
        let (op, ord, msg) = self.deliver_bytes("query", &env, ctx, msg);
        let r = self.inner.query(deps, env, msg);
        let res = match &r {
            Ok(b) => json!({ "ok": bytes_text(b.as_slice()) }),
            Err(e) => json!({ "err": err_value(self.classify, e) }),
        };
        bb::push(Ev::Return {
            world: bb::world(),
            op,
            ord,
            entry: "query",
            res,
        });
        r
    }

    fn sudo(&self, deps: DepsMut<Q>, env: Env, msg: Vec<u8>) -> anyhow::Result<Response<C>> {
        if let Some(e) = out_of_gas() {
            return Err(e);
        }
        let ctx = ctx_echo(deps.as_ref(), &env, None);
        let (op, ord, msg) = self.deliver_bytes("sudo", &env, ctx, msg);
        let r = self.inner.sudo(deps, env, msg);
        self.ret(op, ord, "sudo", &r);
        r
    }

    fn reply(&self, deps: DepsMut<Q>, env: Env, msg: Reply) -> anyhow::Result<Response<C>> {
        if let Some(e) = out_of_gas() {
            return Err(e);
        }
        let (op, ord, world, faults) = take_faults();
        let mut names = vec![];
        let mut env = env;
        if faults.iter().any(|f| matches!(f, Fault::EnvNoTx)) && env.transaction.is_some() {
            env.transaction = None;
            names.push("f16_env_no_tx");
            fired("f16_env_no_tx");
        }
        let ctx = ctx_echo(deps.as_ref(), &env, None);
        let msg = mutate_reply(msg, faults, &mut names);
        bb::push(Ev::Deliver {
            world,
            op,
            ord,
            addr: env.contract.address.to_string(),
            cid: self.cid.to_string(),
            flavour: self.flavour,
            entry: "reply",
            msg: j(&msg),
            ctx,
            faults: names,
        });
        let r = self.inner.reply(deps, env, msg);
        self.ret(op, ord, "reply", &r);
        r
    }

    fn migrate(&self, deps: DepsMut<Q>, env: Env, msg: Vec<u8>) -> anyhow::Result<Response<C>> {
        if let Some(e) = out_of_gas() {
            return Err(e);
        }
        let ctx = ctx_echo(deps.as_ref(), &env, None);
        let (op, ord, msg) = self.deliver_bytes("migrate", &env, ctx, msg);
        let r = self.inner.migrate(deps, env, msg);
        self.ret(op, ord, "migrate", &r);
        r
    }

    fn checksum(&self) -> Option<Checksum> {
        self.inner.checksum()
    }
}
