//! Glue types for driving sylvia's generated multitest proxies from data (C12).

use crate::cust::{CModule, CMsg, CQuery};
use crate::spec::ErrClass;
use serde_json::Value;
use sylvia::cw_multi_test::{
    App, BankKeeper, DistributionKeeper, FailingModule, GovFailingModule, IbcFailingModule,
    StakeKeeper, StargateFailing, WasmKeeper,
};
use sylvia::cw_std::testing::{MockApi, MockStorage};
use sylvia::cw_std::{Addr, Coin, Empty};

pub type AppE = App<
    BankKeeper,
    MockApi,
    MockStorage,
    FailingModule<Empty, Empty, Empty>,
    WasmKeeper<Empty, Empty>,
    StakeKeeper,
    DistributionKeeper,
    IbcFailingModule,
    GovFailingModule,
    StargateFailing,
>;
pub type AppC = App<
    BankKeeper,
    MockApi,
    MockStorage,
    CModule,
    WasmKeeper<CMsg, CQuery>,
    StakeKeeper,
    DistributionKeeper,
    IbcFailingModule,
    GovFailingModule,
    StargateFailing,
>;
pub type SvAppE = sylvia::multitest::App<AppE>;
pub type SvAppC = sylvia::multitest::App<AppC>;

pub struct InstOpts<'a> {
    pub label: Option<&'a str>,
    pub admin: Option<&'a str>,
    pub funds: Option<&'a [Coin]>,
    pub salt: Option<&'a [u8]>,
}

/// outcome of a proxy call, normalised
#[derive(Debug, Clone, PartialEq)]
pub enum POut {
    /// instantiate: new address
    Addr(String),
    /// exec / sudo / migrate: the AppResponse as JSON {events, data}
    Resp(Value),
    /// query: the returned value re-encoded in cosmwasm JSON
    Val(Value),
    Err(ErrClass),
    /// the proxy panicked (message)
    Panic(String),
}

/// a stored code on the proxy side (wraps the generated `CodeId`)
pub trait PCode<'a> {
    fn code_id(&self) -> u64;
    fn instantiate(&self, args: &[u8], opts: &InstOpts, sender: &Addr) -> POut;
    /// a call through the `Proxy` value an earlier `instantiate` of this code returned for `addr`
    /// (None: this code never instantiated that address)
    fn call_kept(&self, addr: &Addr, hid: &str, args: &[u8], funds: Option<&[Coin]>, sender: &Addr, new_code: u64) -> Option<POut>;
}

/// glue of one program, typed by the chain it lives on
pub enum ProxyFns {
    E {
        store: for<'a> fn(&'a SvAppE) -> Box<dyn PCode<'a> + 'a>,
        /// (app, contract addr, handler id, args JSON object, funds, sender, new code id for migrate)
        call: fn(&SvAppE, &Addr, &str, &[u8], Option<&[Coin]>, &Addr, u64) -> POut,
    },
    C {
        store: for<'a> fn(&'a SvAppC) -> Box<dyn PCode<'a> + 'a>,
        call: fn(&SvAppC, &Addr, &str, &[u8], Option<&[Coin]>, &Addr, u64) -> POut,
    },
}
