//! The custom chain: message / query types and the chain module that serves them.

use crate::bb;
use serde::{Deserialize, Serialize};
use serde_json::json;
use sylvia::cw_multi_test::{AppResponse, CosmosRouter, Module};
use sylvia::cw_std::{
    to_json_binary, Addr, Api, Binary, BlockInfo, CustomMsg, CustomQuery, Empty, Event, Querier,
    Storage,
};
use sylvia::schemars::{self, JsonSchema};

#[derive(Serialize, Deserialize, Clone, Debug, PartialEq, JsonSchema)]
#[serde(rename_all = "snake_case")]
pub enum CMsg {
    Note { tag: String },
    Refuse {},
}
impl CustomMsg for CMsg {}

#[derive(Serialize, Deserialize, Clone, Debug, PartialEq, JsonSchema)]
#[serde(rename_all = "snake_case")]
pub enum CQuery {
    Notes {},
}
impl CustomQuery for CQuery {}

pub const NOTES_KEY: &[u8] = b"__cmodule_notes";

#[derive(Default)]
pub struct CModule;

impl Module for CModule {
    type ExecT = CMsg;
    type QueryT = CQuery;
    type SudoT = Empty;

    fn execute<ExecC, QueryC>(
        &self,
        _api: &dyn Api,
        storage: &mut dyn Storage,
        _router: &dyn CosmosRouter<ExecC = ExecC, QueryC = QueryC>,
        _block: &BlockInfo,
        sender: Addr,
        msg: Self::ExecT,
    ) -> anyhow::Result<AppResponse>
    where
        ExecC: CustomMsg + serde::de::DeserializeOwned + 'static,
        QueryC: CustomQuery + serde::de::DeserializeOwned + 'static,
    {
        match msg {
            CMsg::Note { tag } => {
                let mut cur = storage.get(NOTES_KEY).unwrap_or_default();
                cur.extend_from_slice(tag.as_bytes());
                cur.push(b';');
                storage.set(NOTES_KEY, &cur);
                bb::push(bb::Ev::Module {
                    world: bb::world(),
                    what: "exec",
                    data: json!({"sender": sender.as_str(), "tag": tag}),
                });
                Ok(AppResponse {
                    events: vec![Event::new("cmodule").add_attribute("tag", tag.clone())],
                    data: Some(Binary::from(tag.as_bytes().to_vec())),
                })
            }
            CMsg::Refuse {} => anyhow::bail!("cmodule refused"),
        }
    }

    fn query(
        &self,
        _api: &dyn Api,
        storage: &dyn Storage,
        _querier: &dyn Querier,
        _block: &BlockInfo,
        request: Self::QueryT,
    ) -> anyhow::Result<Binary> {
        match request {
            CQuery::Notes {} => {
                let cur = storage.get(NOTES_KEY).unwrap_or_default();
                Ok(to_json_binary(&String::from_utf8_lossy(&cur).to_string())?)
            }
        }
    }

    fn sudo<ExecC, QueryC>(
        &self,
        _api: &dyn Api,
        _storage: &mut dyn Storage,
        _router: &dyn CosmosRouter<ExecC = ExecC, QueryC = QueryC>,
        _block: &BlockInfo,
        _msg: Self::SudoT,
    ) -> anyhow::Result<AppResponse>
    where
        ExecC: CustomMsg + serde::de::DeserializeOwned + 'static,
        QueryC: CustomQuery + serde::de::DeserializeOwned + 'static,
    {
        anyhow::bail!("cmodule: no sudo")
    }
}
