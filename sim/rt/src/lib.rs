//! Run-time support shared by the generated corpus and the simulator core.
pub mod bb;
pub mod cust;
pub mod link;
pub mod proxy;
pub mod registry;
pub mod script;
pub mod spec;
pub mod types;

pub use anyhow;
pub use serde_json;
pub use sylvia;
pub use sylvia::cw_multi_test;
pub use sylvia::cw_std;
