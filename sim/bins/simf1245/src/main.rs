fn main() {
    let mut e = vec![];
    let mut p = vec![];
    e.extend(f1::entries());
    p.extend(f1::dyn_peers());
    e.extend(f2::entries());
    p.extend(f2::dyn_peers());
    e.extend(f3::entries());
    p.extend(f3::dyn_peers());
    e.extend(f5::entries());
    p.extend(f5::dyn_peers());
    simcore::cli::main(e, p, simcore::profiles)
}
