fn main() {
    simcore::cli::main(f2::entries(), simcore::profiles)
}
