fn main() {
    simcore::cli::main(f3::entries(), simcore::profiles)
}
