fn main() {
    let mut e = f1::entries();
    e.extend(f3::entries());
    simcore::cli::main(e, simcore::profiles)
}
