#!/usr/bin/env python3
"""Writes /verif/MANIFEST.json from the table below (so the manifest stays in step with ./check)."""
import json
import os

VERIF = os.path.join(os.path.dirname(os.path.abspath(__file__)), "..")

TECH = "deterministic simulation with fault injection: seeded search over multi-contract histories on a cw-multi-test chain, faults injected at the chain/contract link, oracles as monitors over the event log"

CLAIMED = {
    "C02": dict(
        text="Seeded histories over worlds of 2-4 dispatch-family contracts (dispatch family of 18 programs: 0..3 interfaces, generic contract with an interface, a contract without entry_points, 10-13 parameter signatures, Binary-returning queries, same name in several kinds, digit names, StdError and own error types; generated impl Contract and generated entry points): instantiate / exec / query / sudo / migrate from several senders with funds, nested calls between contracts (so contracts are senders too), scripted failures at any depth, block jumps, code replacement by other programs; a quarter of the runs on the custom chain (native and bridged handlers), and a share in a second, lean build configuration of sylvia. Per delivery the monitor requires exactly one handler entry = the addressed one, every argument under its own name, the context echo (sender, funds, block, contract address, storage sentinel, querier-read balance, api probe) equal to the link's own view, and the chain to receive the handler's own response / error (as the declared error type) / query encoding. Exploration level.",
        ref="DESIGN.md section 4 C02",
        note="argument values from a closed type set; nested documents are attributed to handlers by SPEC + the owning part's own reading; handler names of regular shape only (wire name = method name)",
    ),
    "C03": dict(
        text="Wire-fault injection: well-formed documents of every part are damaged in flight (unknown / foreign / other-kind names, zero / two / duplicated keys, non-objects, truncation, bit flips, removed / added / retyped / duplicated fields, padding) and delivered through the chain between normal transactions. Differential oracle on the real part types asked about the delivered bytes: exactly one part accepts => the wrapper accepts, re-encodes identically and the method that part decoded runs; no part accepts => decode error, no handler entry, state digest unchanged, unknown name => error lists exactly the SPEC's names; never a panic. Exploration level; three classes of genuine deviations are listed in known_findings.txt.",
        ref="DESIGN.md section 4 C03",
        note="part types are the generated plain serde enums (trusted as the definition of what a part accepts); includes irregular names (leading / repeated underscores)",
    ),
    "C04": dict(
        text="Mis-delivery fault: well-formed documents of kind K1 (and Reply-shaped JSON) delivered to the entry point of kind K2 for all ordered pairs over instantiate / execute / query / sudo / migrate / reply (reply via the payload of a hand-made sub-message), biased to programs where the same name and shape exist in several kinds; plus normal traffic. Global invariant on every delivery of every run: a handler entered under a delivery to entry point k is a handler annotated k. Exploration level.",
        ref="DESIGN.md section 4 C04",
        note="both deployment flavours (generated impl Contract, generated entry points); the chain's own sudo / migrate / execute paths",
    ),
    "C10": dict(
        text="Worlds of 2-4 dispatch-family contracts whose handlers, told by seeded scripts, call each other through Remote::executor (handle typed by the concrete contract and by `dyn Interface` incl. associated types; owned, borrowed and bare-builder forms; with and without with_funds), query each other through Remote::querier / BoundQuerier::borrowed, instantiate peers through the generated InstantiateBuilder trait with every combination of label / admin / funds / salt (build and build2), and change admins through update_admin / clear_admin; target failures and unaffordable funds included. Monitor per helper use: message kind, address = handle's address, funds exactly as set, body = the document the property prescribes; then on chain: the delivery of those bytes has the caller as sender and those funds and runs that method of that part with equal arguments; the querier's decoded value equals the target's own; the instantiated contract is of that program with that code id / label / admin and received those arguments. Exploration level.",
        ref="DESIGN.md section 4 C10",
        note="Empty-custom chain; 14 programs; salted address derivation itself is cw-multi-test's and not compared",
    ),
    "C11": dict(
        text="Worlds on a chain with custom message and query types (hand-written chain module) over 5 programs mixing native handlers, interfaces with ExecC/QueryC associated types and interfaces written for the empty custom types under `: custom(msg)`, `: custom(query)` and `: custom(msg, query)` (also with an explicit sv::custom(Empty, Empty) attribute). Scripts make handlers return responses with 0-4 sub-messages of every CosmosMsg kind available (wasm, bank, custom, staking, distribution, ibc, gov, any) with seeded id / payload / gas limit / trigger, attributes, events, data; reply handlers catch failures so histories continue. Monitor: a bridged handler's context echo equals the chain's own view; its response reaches the chain field by field identical unless it contains a custom-typed message, in which case the chain must receive an error; never an error otherwise. Native handlers in the same histories are the control group (C02 monitor). Exploration level.",
        ref="DESIGN.md section 4 C11",
        note="the custom chain module is ours (journals Note messages, answers a Notes query)",
    ),
    "C20": dict(
        text="Durable-format check across code replacement: scripts make contracts store Remote handles typed by any of 37 handle types (concrete contracts and `dyn Interface` parameterisations, owned and borrowed), re-load them under an unrelated type parameter and store them again, and call through handles loaded from storage; between those steps contracts are migrated to other programs (only storage survives) and raw `{\"addr\":..}` bytes are poked as left by a legacy struct. Monitor: stored bytes are exactly {\"addr\":\"<a>\"} for every parameterisation and ownership; bytes read back under any parameter give a handle to <a>, re-stored bytes are identical, calls through it address <a>. Schema-name independence is a pure clause, asserted once per process over all handle types (boot assertion, not simulation coverage). Exploration level.",
        ref="DESIGN.md section 4 C20",
        note="address strings are chain addresses of the world (bech32) and account addresses",
    ),
    "C12": dict(
        text="Twin chains from one seed: world P stores the programs through the generated CodeId::store_code and is driven only through generated proxies (instantiate with label / admin / funds / salt options, exec with and without funds, query, sudo, migrate; contract and interface proxies); world R stores the same programs behind fault links and is driven only through the raw operations with JSON text composed from the SPEC (never by serialising a sylvia type). Histories of 3-12 calls with arbitrary arguments, senders (incl. non-admins), unaffordable funds, nested scripted calls and failures, block jumps. After every step: addresses, AppResponse events and data, query values, handler entries with arguments and context, helper builds, full raw storage of every contract, contract info (code id, admin, label, creator) and all balances must agree; a handler error on R must surface on P as the contract's error type with the same value; a proxy must not panic where R returns an error. Exploration level.",
        ref="DESIGN.md section 4 C12",
        note="dispatch-family programs with regular names on the Empty chain (3/4 of the runs) and the custom-chain programs on a chain with a custom module (1/4); the label used when none is set is mirrored, not asserted",
    ),
    "C06": dict(
        text="Run-time clause by simulation: twin worlds over 30 override programs (none, each single kind, all six, seeded subsets; migrate handler present/absent; reply handler absent / replies feature / legacy). World 0 deploys, for every kind the SPEC says is generated, the generated entry_points::<kind> function and for overridden kinds the user's function (ContractWrapper); world 1 is the reference deployment of the same program. The same seeded raw history (spec-built documents for generated kinds, the override's own documents for overridden kinds, sub-messages with hand-made reply requests, admin and non-admin migrations, scripted failures) runs on both; after every step outcomes, every delivery / entry / return, storage, contract info and balances must agree, an overridden kind must reach only the user's function, and the C02 monitor must hold for every generated kind in both worlds. Existence / absence clause by build gate: the world links entry_points::<kind> for every kind that must exist, and a glob-import ambiguity probe fails the build when an entry point exists that must not. Exploration level.",
        ref="DESIGN.md section 4 C06",
        note="generic contracts' entry points are exercised in family f1 (C02); the build gate is labelled as such in evidence when it fires",
    ),
    "C07": dict(
        text="Seeded simulation of worlds of reply-table contracts (every coverage shape, declaration order, payload signature; 12 programs) calling each other through sub-messages whose callee is told to succeed or fail; gas_used/events/msg_responses injected at the link; hand-made sub-messages with unknown ids and uncovered outcomes. Per reply delivery the monitor requires exactly the declared method (or the pass-through / unknown-id behaviour) with the delivered context values. Exploration: a clean batch is evidence over the sampled histories, not proof.",
        ref="DESIGN.md section 4 C07",
        note="trusts cw-multi-test's reply delivery; reply tables are those of corpus family f3; declaration orders that must compile are covered by the build gate",
    ),
    "C08": dict(
        text="Same worlds as C07. Monitor on every use of a generated SubMsgMethods builder (SubMsg / WasmMsg / CosmosMsg receivers, decoy id/payload/trigger and seeded gas limit on the receiver): id = generated constant, trigger = declared outcomes, message and gas limit kept, raw payload byte for byte; and end to end through the chain: the payload parameters of the reply method equal the values the builder was given (nonce-tagged). Distinct names => distinct ids asserted per contract type. Exploration level.",
        ref="DESIGN.md section 4 C08",
        note="payload signatures: raw, one typed struct, three typed values; trusts cw-multi-test to carry id/payload from sub-message to reply",
    ),
    "C09": dict(
        text="Same worlds, biased to the data-mode programs (all seven modes x error sibling absent / after / before). Callees return no data / well-typed / wrongly typed / raw bytes, instantiate sub-messages feed the instantiate modes, and the link drops, truncates, bit-flips or replaces the reply data (including well-formed envelopes around the wrong JSON and envelopes without inner data). Oracle = the documented decode pipeline (cw_utils parsers + from_json) re-run on the delivered bytes: value / None / missing-data error / decode error, and no handler entry on error. Exploration level.",
        ref="DESIGN.md section 4 C09",
        note="typed data types: Pt, String, u64; the two-sided cell (envelope without inner data under an optional typed mode) accepts None or an error",
    ),
}

NA = {
    "C01": "wire shape of a single message value is a pure function of (program text, value): no history, party, schedule or fault enters it; not a simulation target (every spec-built document in the C02/C12 runs has this shape, as a side effect only)",
    "C05": "compile-time rejection plus a pure const fn over sorted string lists: nothing runs, nothing can be scheduled or faulted",
    "C13": "token-level identity / repeatability of macro expansion: one compile-time input, one output; no run-time behaviour to simulate",
    "C14": "relation between two compile-time expansions (permuted declarations); no schedule or fault corresponds to it (declaration orders of reply tables are in the corpus, as a build gate for C07 only)",
    "C15": "generic parameter lists and bounds of emitted types are compile-time typing facts",
    "C16": "schema / query-response tables are pure metadata functions of program text",
    "C17": "placement of forwarded attributes in emitted items is compile-time structure",
    "C18": "compile-fail diagnostics: the system observed is rustc + macro on one input; there is no execution to simulate",
    "C19": "path / identifier hygiene of emitted code under a renamed dependency is compile-time name resolution",
}

PENDING = {
}


def main():
    checks = []
    for pid in sorted(CLAIMED):
        c = CLAIMED[pid]
        checks.append(
            {
                "property_id": pid,
                "quick_cmd": "./check %s quick" % pid,
                "thorough_cmd": "./check %s thorough" % pid,
                "evidence_file": "/verif/evidence/%s.json" % pid,
                "replay_cmd_template": "./check %s --replay {path}" % pid,
                "engine": "simrun",
                "level_claimed": {"category": "exploration", "text": c["text"], "design_ref": c["ref"]},
                "level_note": c["note"],
                "technique": TECH,
            }
        )
    na = [{"property_id": k, "reason": v} for k, v in sorted(NA.items())]
    na += [{"property_id": k, "reason": v} for k, v in sorted(PENDING.items()) if k not in CLAIMED]
    m = {
        "version": 1,
        "setup_cmd": "cd /verif && ./check build",
        "hooks": {
            "guard": "none",
            "enable": "no hooks in /repo: every seam the simulator needs already exists (cw_multi_test::Contract trait object = contract link, BlockInfo = clock, App storage access). Checks build /verif/sim against /repo's working tree as a path dependency.",
            "baseline_off_cmd": "cd /repo && cargo test --workspace --no-fail-fast --offline",
            "source_commits": [],
            "add_only": True,
        },
        "engines": [
            {
                "name": "simrun",
                "path": "/verif/sim",
                "serves_properties": sorted(CLAIMED),
                "kind_free_text": "deterministic chain simulation (cw-multi-test) with seeded histories and link-level fault injection; Rust workspace: rt (black box, scripts, fault link), fam/* (generated corpus expanded by /repo's macros), core (worlds, profiles, monitors, minimiser, replay), bins",
            }
        ],
        "checks": checks,
        "not_applicable": na,
        "notes": "Genuine defects found and repaired by fix: commits in /repo are listed in /verif/known_findings.txt (fixed: lines); genuine defects recorded but not repaired are its known: lines. ./check selfcheck proves run determinism (same seed, separate processes, 1 vs 16 workers). Replay files are of three kinds, all understood by the replay command: a minimised explicit plan (world, operations, fault plan), a thread history (for violations that depend on state the code under test carries across runs), a build-gate record (the corpus programs of the property's worlds no longer compile). Every check ends with cold-start probes in fresh single-threaded processes. C02 and C11 also run in a second, lean build configuration of sylvia. /verif/seeded holds 246 seeded changes (three of them not caught, see DESIGN.md 8.5) written by independent sub-agents (patch, demonstration, confirmation, verdict of the check).",
    }
    with open(os.path.join(VERIF, "MANIFEST.json"), "w") as f:
        json.dump(m, f, indent=1)
        f.write("\n")


if __name__ == "__main__":
    main()
