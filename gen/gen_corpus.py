#!/usr/bin/env python3
"""Seeded generator of the simulation corpus (the programs of the simulated world).

Prints, for every corpus contract, (1) the sylvia program text (echo handlers that record
and then follow a script), (2) the SPEC the oracles read, (3) typed glue that lets scripts
use the *real* generated helpers (executor / querier / instantiate builder / sub-message
builders / multitest proxies) from data.

SPEC and program text are printed from the same Python model; nothing in SPEC is derived
from sylvia's output.  Output is committed; `gen_corpus.py --check` regenerates and diffs.
"""
import os
import random
import json
import sys

CORPUS_SEED = 20261002
OUT = os.path.join(os.path.dirname(os.path.abspath(__file__)), "..", "sim", "fam")

# --------------------------------------------------------------------------------------
# naming rules (emulation of the two casing routines involved; a mismatch with the real
# ones shows up as a compile error of the corpus, never silently)


def cc_words(s):
    """word split of convert_case 0.8 default boundaries"""
    out = []
    for chunk in s.replace("-", "_").replace(" ", "_").split("_"):
        if not chunk:
            continue
        cur = chunk[0]
        for i in range(1, len(chunk)):
            p, c = chunk[i - 1], chunk[i]
            n = chunk[i + 1] if i + 1 < len(chunk) else ""
            split = (
                (p.islower() and c.isupper())
                or (p.islower() and c.isdigit())
                or (p.isupper() and c.isdigit())
                or (p.isdigit() and c.islower())
                or (p.isdigit() and c.isupper())
                or (p.isupper() and c.isupper() and n.islower() and n != "")
            )
            if split:
                out.append(cur)
                cur = c
            else:
                cur += c
        out.append(cur)
    return out


def cc_upper_camel(s):
    return "".join(w[0].upper() + w[1:].lower() for w in cc_words(s))


def cc_snake(s):
    return "_".join(w.lower() for w in cc_words(s))


def cc_upper_snake(s):
    return "_".join(w.upper() for w in cc_words(s))


def serde_snake(variant):
    """serde's RenameRule::SnakeCase: `_` before every (Unicode) upper-case char, ASCII-only lowering"""
    out = ""
    for i, ch in enumerate(variant):
        if ch.isupper() and i > 0:
            out += "_"
        out += ch.lower() if ch.isascii() else ch
    return out


def variant_of(fn):
    return cc_upper_camel(fn)


def ctor_of(fn):
    """name of the generated constructor / executor / querier / proxy method"""
    return cc_snake(variant_of(fn))


def wire_of(fn):
    return serde_snake(variant_of(fn))


def is_regular(fn):
    import re

    return re.fullmatch(r"[a-z]+[0-9]*(_[a-z]+[0-9]*)*", fn, flags=re.ASCII) is not None


# --------------------------------------------------------------------------------------
# model

KINDS = ["instantiate", "exec", "query", "sudo", "migrate", "reply"]
KIND_ENUM = {
    "instantiate": "Instantiate",
    "exec": "Exec",
    "query": "Query",
    "sudo": "Sudo",
    "migrate": "Migrate",
    "reply": "Reply",
}
ENTRY = {
    "instantiate": "instantiate",
    "exec": "execute",
    "query": "query",
    "sudo": "sudo",
    "migrate": "migrate",
    "reply": "reply",
}
CTX = {
    "instantiate": "InstantiateCtx",
    "exec": "ExecCtx",
    "query": "QueryCtx",
    "sudo": "SudoCtx",
    "migrate": "MigrateCtx",
    "reply": "ReplyCtx",
}

# closed set of argument types (Rust spelling -> nothing else needed; values are drawn by the
# simulator from the type *name*)
ARG_TYPES = [
    "u8",
    "u32",
    "u64",
    "i32",
    "bool",
    "String",
    "Option<String>",
    "Option<u32>",
    "Vec<u32>",
    "Binary",
    "Addr",
    "Coin",
    "Vec<Coin>",
    "Uint128",
    "Pt",
    "Kd",
    "i64",
    "Vec<String>",
    "Option<Pt>",
    "Vec<Pt>",
    "Option<Binary>",
    "Option<Vec<Coin>>",
]
RET_TYPES = ["String", "u64", "QResp", "bool", "Vec<u32>"]


class Arg:
    def __init__(self, name, ty, default=None, rename=None):
        self.name = name
        self.ty = ty
        self.wire = rename or (name[2:] if name.startswith("r#") else name)
        self.rename = rename  # a second forwarded attribute: #[serde(rename = "..")]
        # (rust fn path, JSON text of its value) of a forwarded #[serde(default = "..")]
        self.default = default

    def decl(self, ty=None):
        attr = '#[serde(default = "%s")] ' % self.default[0] if self.default else ""
        if self.rename:
            attr += '#[serde(rename = "%s")] ' % self.rename
        return "%s%s: %s" % (attr, self.name, ty or self.ty)


class Reply:
    def __init__(self, names, on, data="Unmarked", data_ty="", payload_raw=False, payload=None, legacy=False):
        self.legacy = legacy  # pre-`replies` style: fn reply(&self, ctx, msg: Reply)
        self.names = names  # [] => the method's own name
        self.on = on  # success | error | always
        self.data = data
        self.data_ty = data_ty
        self.payload_raw = payload_raw
        self.payload = payload or []


class Handler:
    def __init__(self, kind, fn, args=None, ret="", reply=None, script=True, failarg=False, ctx=None, alias=None):
        self.kind = kind
        self.fn = fn
        self.ctx = ctx  # context type written in the signature when it is not the kind's own
        self.alias = alias  # second wire name forwarded with #[sv::attr(serde(alias = ".."))]
        self.args = list(args or [])
        self.ret = ret
        self.reply = reply
        self.part = ""  # set when attached
        if kind == "query":
            if failarg:
                self.args.append(Arg("fail", "Option<u32>"))
        elif kind != "reply" and script:
            self.args.append(Arg("script", "Script"))

    def hid(self):
        return "%s:%s:%s" % (ENTRY[self.kind], self.part, self.fn)


class Iface:
    def __init__(self, mod, handlers, assoc=(), custom=None, trait=None):
        self.mod = mod  # module name (may be a path below `ifaces`); trait = UpperCamel unless given
        self.trait = trait or cc_upper_camel(mod)
        self.handlers = handlers
        self.assoc = list(assoc)  # subset of ["ExecC", "QueryC", "T"]
        self.custom = custom  # None or (msg_ty, query_ty) given in #[sv::custom]
        for h in handlers:
            h.part = self.trait

    # type an interface handler's response / ctx is written in
    def msg_ty(self):
        if "ExecC" in self.assoc:
            return "Self::ExecC"
        return "Empty"

    def query_ty(self):
        if "QueryC" in self.assoc:
            return "Self::QueryC"
        return "Empty"


class Use:
    """an interface implemented by a contract"""

    def __init__(self, iface, custom_msg=False, custom_query=False, err="std", t="Pt", alias=False):
        self.iface = iface
        self.custom_msg = custom_msg  # `: custom(msg)` bridge
        self.custom_query = custom_query
        self.err = err  # std | own
        self.t = t
        self.alias = alias


class Contract:
    def __init__(
        self,
        mod,
        family,
        handlers,
        uses=(),
        err="own",
        custom_chain=False,
        generic=None,
        overrides=(),
        replies=False,
        entry_points=True,
        tags=(),
        remote_slots=(),
        legacy_ctx=False,
        stateful=False,
        name=None,
        generic_alt=None,
        spelled_empty=False,
    ):
        self.mod = mod
        self.name = name or cc_upper_camel(mod)
        self.family = family
        self.handlers = handlers
        for h in handlers:
            h.part = ""
        self.uses = list(uses)
        self.err = err
        # sylvia's dispatch arm for an interface has no error conversion unless the interface is
        # bridged with `: custom(msg)`: the interface's Error must be the contract's error type
        for u in self.uses:
            if custom_chain:
                # an interface written for the empty custom types has to be bridged
                u.custom_msg = "ExecC" not in u.iface.assoc
                u.custom_query = "QueryC" not in u.iface.assoc
            # the dispatch arm converts the interface's error only in the `: custom(msg)` bridge of
            # exec / sudo (`?`), never for queries: everywhere else the types have to be equal
            # (even an interface without queries has a query arm in the wrapper, so in practice never)
            u.err = err
        self.custom_chain = custom_chain
        self.generic = generic  # None or concrete type substituted for T
        self.spelled_empty = spelled_empty  # `#[sv::custom(msg=Empty, query=Empty)]` written out, interfaces bridged
        self.generic_alt = generic_alt  # a second instantiation of the same program (own SPEC / glue / cid)
        self.overrides = list(overrides)
        self.replies = replies
        self.entry_points = entry_points
        self.tags = list(tags)
        self.legacy_ctx = legacy_ctx  # own handlers take the deprecated sylvia::types::*Ctx
        self.stateful = stateful  # the contract value carries a tag and a call counter in memory
        if stateful:
            self.tags.append("stateful")
        self.cid = "%s::%s" % (family, mod)

    def all_handlers(self):
        out = list(self.handlers)
        for u in self.uses:
            out.extend(u.iface.handlers)
        return out

    def of(self, kind):
        return [h for h in self.handlers if h.kind == kind]

    def msg_ty(self):
        return "CMsg" if self.custom_chain else "Empty"

    def query_ty(self):
        return "CQuery" if self.custom_chain else "Empty"

    def err_ty(self):
        return "ContractError" if self.err == "own" else "StdError"

    def self_ty(self):
        return self.name + ("<%s>" % self.generic if self.generic else "")

    def has(self, kind):
        return any(h.kind == kind for h in self.handlers)


# --------------------------------------------------------------------------------------
# emission helpers

PRELUDE = """\
#![allow(unused_imports, dead_code, clippy::all, deprecated, unused_variables, unused_mut)]
use rt::bb::{self, ctx_echo, j};
use rt::cust::{CMsg, CQuery};
use rt::script::{self, arg, arg_idx, parse_args, Glue, Script};
use rt::serde_json::{self, json, Value};
use rt::spec::*;
use rt::types::*;
use sylvia::ctx::{ExecCtx, InstantiateCtx, MigrateCtx, QueryCtx, ReplyCtx, SudoCtx};
use sylvia::cw_std::{
    Addr, Binary, Coin, CosmosMsg, CustomMsg, CustomQuery, Deps, DepsMut, Empty, Env, MessageInfo,
    QuerierWrapper, Reply, Response, StdError, StdResult, Storage, SubMsg, SubMsgResult, Uint128,
    WasmMsg,
};
use sylvia::cw_utils::MsgInstantiateContractResponse;
use sylvia::types::{
    BoundQuerier, ContractApi, EmptyExecutorBuilderState, ExecutorBuilder, Remote,
};
use sylvia::{contract, entry_points, interface};
"""


def ty_in(ty, generic_name="T", concrete=None):
    return ty


def rust_args(args, self_assoc=False):
    return "".join(", " + a.decl() for a in args)


# set while the text of a contract whose value carries in-memory state is printed
STATEFUL = [False]


def json_args(args):
    members = ['"%s": j(&%s)' % (a.wire, a.name) for a in args]
    if STATEFUL[0]:
        members.append('"__self": self.echo_self()')
    return "json!({%s})" % ", ".join(members)


def ret_expr(h, hid):
    """value an echo query returns: a function of its arguments"""
    keep = STATEFUL[0]
    STATEFUL[0] = False
    key = 'format!("%s|{}", %s)' % (hid, json_args([a for a in h.args if a.name != "fail"]))
    STATEFUL[0] = keep
    if h.ret == "String":
        return key
    if h.ret == "u64":
        return "hash64(&%s)" % key
    if h.ret == "QResp":
        return 'QResp { tag: "%s".to_string(), n: hash64(&%s) }' % (h.fn, key)
    if h.ret == "bool":
        return "hash64(&%s) %% 2 == 0" % key
    if h.ret == "Vec<u32>":
        return "vec![(hash64(&%s) %% 1000) as u32, %d]" % (key, len(h.args))
    if h.ret == "u128":
        return "hash64(&%s) as u128 * 1_000_003u128" % key
    if h.ret == "Option<u32>":
        return "if hash64(&%s) %% 2 == 0 { None } else { Some((hash64(&%s) %% 1000) as u32) }" % (key, key)
    if h.ret == "Binary":
        return "Binary::from(%s.into_bytes())" % key
    if h.ret == "Unenc":
        return "Unenc { label: %s, pairs: (0..n).map(|i| ((i, i), i as u64)).collect() }" % key
    if h.ret in ("T", "Self::T"):
        return "item.clone()"
    raise Exception("ret type " + h.ret)


BRANCH = [True]  # cleared while a contract with the deprecated context types is printed


NOTOUCH = [False]  # set while a contract is printed whose instantiate handler writes nothing


def body_mut(h, glue, hid, with_info):
    info = "Some(&ctx.info)" if with_info else "None"
    script = "&script" if any(a.name == "script" for a in h.args) else "&Script::default()"
    # every other handler re-borrows its context first (a handler may; the context it goes on
    # with is still the one it was given)
    ctx_ty = h.ctx or CTX[h.kind]
    branch = ""
    if BRANCH[0] and ctx_ty in ("ExecCtx", "InstantiateCtx", "SudoCtx") and sum(map(ord, h.fn)) % 2 == 0:
        branch = "let mut ctx = ctx;\n        { let __b = ctx.branch(); let _ = &__b.env; }\n        "
    return """{
        %slet __c = ctx_echo(ctx.deps.as_ref(), &ctx.env, %s);
        bb::enter(<%s as Glue>::CID, "%s", %s, __c);
        %s
        let __r = script::run::<%s>(ctx.deps, &ctx.env, %s);
        bb::exit(<%s as Glue>::CID, "%s", script::exit_value(&__r, <%s as Glue>::describe));
        __r
    }""" % (branch, info, glue, hid, json_args(h.args), "" if (NOTOUCH[0] and h.kind == "instantiate") else "bb::touch(ctx.deps.storage);", glue, script, glue, hid, glue)


def body_query(h, glue, hid):
    if any(a.ty == "Script" for a in h.args) and h.ret == "String":
        # a query handler that takes a script relays the script's queries to the peers it names
        sname = [a.name for a in h.args if a.ty == "Script"][0]
        rest = [a for a in h.args if a.ty != "Script" and a.name != "fail"]
        keep = STATEFUL[0]
        STATEFUL[0] = False
        key = json_args(rest)
        STATEFUL[0] = keep
        return """{
        let __c = ctx_echo(ctx.deps, &ctx.env, None);
        bb::enter(<%s as Glue>::CID, "%s", %s, __c);
        let __r = match script::run_queries::<%s>(ctx.deps, &%s) { Ok(answers) => Ok(format!("%s|{}|{}", %s, answers)), Err(e) => Err(e) };
        bb::exit(<%s as Glue>::CID, "%s", match &__r { Ok(v) => json!({"ok": j(v)}), Err(e) => json!({"err": <%s as Glue>::describe(e)}) });
        __r
    }""" % (glue, hid, json_args(h.args), glue, sname, hid, key, glue, hid, glue)
    fail = (
        "if let Some(code) = fail { Err(<%s as Glue>::fail(code)) } else " % glue
        if any(a.name == "fail" for a in h.args)
        else ""
    )
    return """{
        let __c = ctx_echo(ctx.deps, &ctx.env, None);
        bb::enter(<%s as Glue>::CID, "%s", %s, __c);
        let __r = %s{ Ok(%s) };
        bb::exit(<%s as Glue>::CID, "%s", match &__r { Ok(v) => json!({"ok": j(v)}), Err(e) => json!({"err": <%s as Glue>::describe(e)}) });
        __r
    }""" % (glue, hid, json_args(h.args), fail, ret_expr(h, hid), glue, hid, glue)


def reply_params(h):
    """(rust parameter list after ctx, echo json, script expression)"""
    r = h.reply
    params = []
    echo = []
    if r.on == "success":
        if r.data != "Unmarked":
            attr = {
                "Raw": "raw",
                "RawOpt": "raw, opt",
                "Typed": "",
                "Opt": "opt",
                "Instantiate": "instantiate",
                "InstantiateOpt": "instantiate, opt",
            }[r.data]
            ty = {
                "Raw": "Binary",
                "RawOpt": "Option<Binary>",
                "Typed": r.data_ty,
                "Opt": "Option<%s>" % r.data_ty,
                "Instantiate": "MsgInstantiateContractResponse",
                "InstantiateOpt": "Option<MsgInstantiateContractResponse>",
            }[r.data]
            # (another attribute may stand in front of the marker)
            lint = "#[allow(unused_variables)] " if getattr(r, "lint_first", False) else ""
            params.append(lint + ("#[sv::data(%s)] data: %s" % (attr, ty) if attr else "#[sv::data] data: %s" % ty))
            if r.data in ("Instantiate", "InstantiateOpt"):
                # MsgInstantiateContractResponse is not Serialize; echo its fields
                if r.data == "Instantiate":
                    echo.append('"data": json!({"contract_address": data.contract_address, "data": j(&data.data)})')
                else:
                    echo.append(
                        '"data": match &data { Some(d) => json!({"contract_address": d.contract_address, "data": j(&d.data)}), None => Value::Null }'
                    )
            else:
                echo.append('"data": j(&data)')
            if r.data in ("RawOpt", "Opt", "InstantiateOpt"):
                # `Some(None)` of an optional typed value and `None` both encode as null
                echo.append('"data_some": json!(data.is_some())')
    elif r.on == "error":
        params.append("error: String")
        echo.append('"error": j(&error)')
    else:
        params.append("result: SubMsgResult")
        echo.append('"result": j(&result)')
    if getattr(r, "decoy_raw", False):
        # the marker sits on this method only; the method declared first (unmarked) decides, so
        # the value travels typed for both
        a = r.payload[0]
        params.append("#[sv::payload(raw)] %s: %s" % (a.name, a.ty))
        echo.append('"%s": j(&%s)' % (a.wire, a.name))
        script = "&Script::default()"
    elif r.payload_raw:
        params.append("#[sv::payload(raw)] payload: Binary")
        echo.append('"payload": bb::bytes_text(payload.as_slice())')
        script = "&script::script_from_raw_payload(payload.as_slice())"
    else:
        for a in r.payload:
            params.append("%s: %s" % (a.name, a.ty))
            echo.append('"%s": j(&%s)' % (a.wire, a.name))
        if any(a.ty == "Pay" for a in r.payload):
            script = "&%s.script" % [a.name for a in r.payload if a.ty == "Pay"][0]
        elif any(a.ty == "Script" for a in r.payload):
            script = "&%s" % [a.name for a in r.payload if a.ty == "Script"][0]
        else:
            script = "&Script::default()"
    return params, "json!({%s})" % ", ".join(echo), script


def body_reply_legacy(h, glue, hid):
    return """{
        let __c = ctx_echo(ctx.deps.as_ref(), &ctx.env, None);
        bb::enter(<%s as Glue>::CID, "%s", json!({"msg": j(&msg)}), __c);
        bb::touch(ctx.deps.storage);
        let __s = script::script_from_raw_payload(msg.payload.as_slice());
        let __r = script::run::<%s>(ctx.deps, &ctx.env, &__s);
        bb::exit(<%s as Glue>::CID, "%s", script::exit_value(&__r, <%s as Glue>::describe));
        __r
    }""" % (glue, hid, glue, glue, hid, glue)


def body_reply(h, glue, hid):
    _, echo, script = reply_params(h)
    return """{
        let __c = bb::reply_ctx_extra(ctx_echo(ctx.deps.as_ref(), &ctx.env, None), ctx.gas_used, &ctx.events, &ctx.msg_responses);
        bb::enter(<%s as Glue>::CID, "%s", %s, __c);
        bb::touch(ctx.deps.storage);
        let __r = script::run::<%s>(ctx.deps, &ctx.env, %s);
        bb::exit(<%s as Glue>::CID, "%s", script::exit_value(&__r, <%s as Glue>::describe));
        __r
    }""" % (glue, hid, echo, glue, script, glue, hid, glue)


def msg_attr(h):
    if h.kind != "reply":
        extra = '\n        #[sv::attr(serde(alias = "%s"))]' % h.alias if h.alias else ""
        return "#[sv::msg(%s)]%s" % (h.kind, extra)
    r = h.reply
    if r.legacy:
        return "#[sv::msg(reply)]"
    parts = ["reply"]
    if r.names:
        parts.append("handlers=[%s]" % ", ".join(r.names))
    if r.on != "always" or getattr(r, "explicit_always", False):
        parts.append("reply_on=%s" % r.on)
    return "#[sv::msg(%s)]" % ", ".join(parts)


def emit_glue_struct(name, cid, msg_ty, query_ty, err, reply_table=None, self_ty=None):
    """a Glue impl. err: 'own' | 'std'"""
    chain = msg_ty == "CMsg"
    qchain = query_ty == "CQuery"
    if err == "own":
        fail = "ContractError::Scripted { code }"
        describe = 'match e { ContractError::Scripted { code } => json!({"scripted": code}), o => json!({"own": o.to_string()}) }'
        ety = "ContractError"
    else:
        fail = 'StdError::generic_err(format!("scripted:{}", code))'
        describe = 'json!({"std": e.to_string()})'
        ety = "StdError"
    wraps = ""
    if reply_table:
        arms_sub, arms_wasm, arms_cos = [], [], []
        for name_, sig in reply_table:
            if sig["raw"]:
                call = "%s(Binary::from(payload.to_vec()))" % name_
                pre = ""
            else:
                pre = "let v = parse_args(payload)?; "
                call = "%s(%s)" % (
                    name_,
                    ", ".join("arg_idx::<%s>(&v, %d)?" % (a.ty, i) for i, a in enumerate(sig["payload"])),
                )
            arms_sub.append('"%s" => { %ssv::SubMsgMethods::<%s>::%s }' % (name_, pre, msg_ty, call.replace("(", "(sm, ", 1)))
            arms_wasm.append('"%s" => { %s<WasmMsg as sv::SubMsgMethods<%s>>::%s }' % (name_, pre, msg_ty, call.replace("(", "(m, ", 1)))
            arms_cos.append('"%s" => { %s<CosmosMsg<%s> as sv::SubMsgMethods<%s>>::%s }' % (name_, pre, msg_ty, msg_ty, call.replace("(", "(m, ", 1)))
        err_arm = '_ => Err(StdError::generic_err(format!("harness: no reply builder `{}`", name)))'
        wraps = """
        fn wrap_submsg(sm: SubMsg<%s>, name: &str, payload: &[u8]) -> StdResult<SubMsg<%s>> {
            match name { %s, %s }
        }
        fn wrap_wasm(m: WasmMsg, name: &str, payload: &[u8]) -> StdResult<SubMsg<%s>> {
            match name { %s, %s }
        }
        fn wrap_cosmos(m: CosmosMsg<%s>, name: &str, payload: &[u8]) -> StdResult<SubMsg<%s>> {
            match name { %s, %s }
        }""" % (
            msg_ty,
            msg_ty,
            ", ".join(arms_sub),
            err_arm,
            msg_ty,
            ", ".join(arms_wasm),
            err_arm,
            msg_ty,
            msg_ty,
            ", ".join(arms_cos),
            err_arm,
        )
    return """
    pub struct %s;
    impl Glue for %s {
        type C = %s;
        type Q = %s;
        type E = %s;
        const CID: &'static str = "%s";
        fn fail(code: u32) -> Self::E { %s }
        fn describe(e: &Self::E) -> Value { %s }
        fn custom_msg(tag: &str) -> CosmosMsg<%s> { script::%s(tag) }
        fn query_peer(f: &rt::registry::PeerFns, q: &QuerierWrapper<%s>, addr: &Addr, form: u8, method: &str, args: &[u8]) -> StdResult<Binary> {
            script::%s(f, q, addr, form, method, args)
        }%s
    }
""" % (
        name,
        name,
        msg_ty,
        query_ty,
        ety,
        cid,
        fail,
        describe,
        msg_ty,
        "custom_msg_chain" if chain else "custom_msg_empty",
        query_ty,
        "query_peer_chain" if qchain else "query_peer_empty",
        wraps,
    )


def emit_iface(i):
    lines = []
    segs = i.mod.split("::")
    for outer in segs[:-1]:
        lines.append("pub mod %s {" % outer)
        lines.append("    use super::*;")
    lines.append("pub mod %s {" % segs[-1])
    lines.append("    use super::*;")
    lines.append("    #[interface]")
    if i.custom:
        lines.append("    #[sv::custom(msg=%s, query=%s)]" % i.custom)
    lines.append("    pub trait %s {" % i.trait)
    lines.append("        type Error: From<StdError>;")
    if "ExecC" in i.assoc:
        lines.append("        type ExecC: sylvia::types::CustomMsg;")
    if "QueryC" in i.assoc:
        lines.append("        type QueryC: sylvia::types::CustomQuery;")
    if "T" in i.assoc:
        lines.append(
            "        type T: serde::Serialize + serde::de::DeserializeOwned + std::fmt::Debug + Clone + PartialEq + sylvia::schemars::JsonSchema;"
        )
    q = "<%s>" % i.query_ty() if i.query_ty() != "Empty" else ""
    m = "<%s>" % i.msg_ty() if i.msg_ty() != "Empty" else ""
    for h in i.handlers:
        lines.append("        %s" % msg_attr(h))
        args = "".join(", " + a.decl("Self::T" if a.ty == "T" else a.ty) for a in h.args)
        if h.kind == "query":
            ret = "Self::T" if h.ret == "T" else h.ret
            lines.append("        fn %s(&self, ctx: %s%s%s) -> Result<%s, Self::Error>;" % (h.fn, CTX[h.kind], q, args, ret))
        else:
            lines.append(
                "        fn %s(&self, ctx: %s%s%s) -> Result<Response%s, Self::Error>;" % (h.fn, CTX[h.kind], q, args, m)
            )
    lines.append("    }")
    lines.append("}")
    for _ in segs[:-1]:
        lines.append("}")
    return "\n".join(lines)


def payload_sig(h):
    r = h.reply
    return {"raw": r.payload_raw, "payload": r.payload}


def reply_table(c):
    """ordered [(name, sig)] in first-occurrence order of handler names (the id order)"""
    seen = []
    for h in c.of("reply"):
        names = h.reply.names or [h.fn]
        for n in names:
            if n not in [s[0] for s in seen]:
                seen.append((n, payload_sig(h)))
    return seen


def emit_contract(c, iface_path):
    STATEFUL[0] = c.stateful
    BRANCH[0] = not c.legacy_ctx
    NOTOUCH[0] = "notouch" in c.tags
    try:
        return emit_contract_inner(c, iface_path)
    finally:
        STATEFUL[0] = False
        BRANCH[0] = True
        NOTOUCH[0] = False


def emit_contract_inner(c, iface_path):
    L = []
    w = L.append
    w("pub mod %s {" % c.mod)
    w("    use super::*;")
    w('    pub const CID: &str = "%s";' % c.cid)
    w(
        """
    #[derive(thiserror::Error, Debug, PartialEq)]
    pub enum ContractError {
        #[error("{0}")]
        Std(#[from] StdError),
        #[error("scripted failure {code}")]
        Scripted { code: u32 },
    }
"""
    )
    table = reply_table(c) if c.replies else None
    w(emit_glue_struct("G", c.cid, c.msg_ty(), c.query_ty(), c.err, table))
    for u in c.uses:
        i = u.iface
        m = "Empty" if (u.custom_msg or (not c.custom_chain) or ("ExecC" not in i.assoc and True)) else c.msg_ty()
        # message type the interface handlers are written in, as seen from this contract
        if "ExecC" in i.assoc:
            m = c.msg_ty()
        else:
            m = "Empty"
        qq = c.query_ty() if "QueryC" in i.assoc else "Empty"
        w(emit_glue_struct("G%s" % i.trait, c.cid, m, qq, "own" if u.err == "own" else "std"))

    # the contract type
    if c.generic:
        w("    pub struct %s<T>(std::marker::PhantomData<T>);" % c.name)
    elif c.stateful:
        w("    pub struct %s { tag: u64, calls: std::cell::Cell<u64> }" % c.name)
        w(
            """    impl %s {
        /// a value other than the one `new()` builds: deployments that are handed a contract
        /// value must run the handlers on that very value
        pub fn with_tag(tag: u64) -> Self { Self { tag, calls: std::cell::Cell::new(0) } }
        fn echo_self(&self) -> Value {
            let n = self.calls.get();
            self.calls.set(n + 1);
            json!({"tag": self.tag, "calls": n})
        }
    }"""
            % c.name
        )
    else:
        w("    pub struct %s;" % c.name)

    # override functions
    ov_attrs = []
    if c.overrides:
        w("    pub mod ov {")
        w("        use super::*;")
        for k in c.overrides:
            ent = ENTRY[k]
            if k in ("instantiate", "migrate"):
                w("        #[derive(serde::Serialize, serde::Deserialize, Clone, Debug, PartialEq)]")
                w("        pub struct Ov%sMsg { pub tag: String }" % KIND_ENUM[k])
            elif k == "reply":
                pass
            else:
                w("        #[derive(serde::Serialize, serde::Deserialize, Clone, Debug, PartialEq)]")
                w('        #[serde(rename_all = "snake_case")]')
                w("        pub enum Ov%sMsg { Poke { tag: String } }" % KIND_ENUM[k])
            mt = "Reply" if k == "reply" else "Ov%sMsg" % KIND_ENUM[k]
            if k in ("instantiate", "exec"):
                sig = "deps: DepsMut<%s>, env: Env, info: MessageInfo, msg: %s" % (c.query_ty(), mt)
                info = "Some(&info)"
            elif k == "query":
                sig = "deps: Deps<%s>, env: Env, msg: %s" % (c.query_ty(), mt)
                info = "None"
            else:
                sig = "deps: DepsMut<%s>, env: Env, msg: %s" % (c.query_ty(), mt)
                info = "None"
            if k == "query":
                w(
                    """        pub fn %s(%s) -> Result<Binary, %s> {
            let __c = ctx_echo(deps, &env, None);
            bb::enter(CID, "override:%s", json!({"msg": j(&msg)}), __c);
            let __r: Result<Binary, %s> = sylvia::cw_std::to_json_binary(&format!("override:%s")).map_err(Into::into);
            bb::exit(CID, "override:%s", match &__r { Ok(v) => json!({"ok": j(v)}), Err(e) => json!({"err": e.to_string()}) });
            __r
        }"""
                    % (ent, sig, c.err_ty(), ent, c.err_ty(), ent, ent)
                )
            else:
                w(
                    """        pub fn %s(%s) -> Result<Response<%s>, %s> {
            let __c = ctx_echo(deps.as_ref(), &env, %s);
            bb::enter(CID, "override:%s", json!({"msg": j(&msg)}), __c);
            bb::touch(deps.storage);
            bb::journal(deps.storage, "override:%s");
            let __r: Result<Response<%s>, %s> = Ok(Response::new().add_attribute("override", "%s"));
            bb::exit(CID, "override:%s", script::exit_value(&__r, <G as Glue>::describe));
            __r
        }"""
                    % (ent, sig, c.msg_ty(), c.err_ty(), info, ent, ent, c.msg_ty(), c.err_ty(), ent, ent)
                )
            ov_attrs.append("    #[sv::override_entry_point(%s=ov::%s(%s))]" % (k, ent, "ov::" + mt if k != "reply" else "Reply"))
        w("    }")

    # the impl block
    if c.entry_points:
        w("    #[entry_points%s]" % ("(generics<%s>)" % c.generic if c.generic else ""))
    w("    #[contract]")
    if c.err == "own":
        w("    #[sv::error(ContractError)]")
    for u in c.uses:
        cust = []
        if u.custom_msg:
            cust.append("msg")
        if u.custom_query:
            cust.append("query")
        w(
            "    #[sv::messages(%s::%s%s%s)]"
            % (
                iface_path,
                u.iface.mod,
                " as %s" % u.iface.trait if u.alias else "",
                ": custom(%s)" % ", ".join(cust) if cust else "",
            )
        )
    if c.custom_chain:
        w("    #[sv::custom(msg=CMsg, query=CQuery)]")
    elif c.spelled_empty:
        w("    #[sv::custom(msg=Empty, query=Empty)]")
    for a in ov_attrs:
        w(a)
    if c.replies:
        w("    #[sv::features(replies)]")
    if c.generic:
        w("    impl<T> %s<T>" % c.name)
        w(
            "    where T: serde::Serialize + serde::de::DeserializeOwned + std::fmt::Debug + Clone + PartialEq + sylvia::schemars::JsonSchema + 'static,"
        )
        w("    {")
        w("        pub fn new() -> Self { bb::constructed(CID); Self(std::marker::PhantomData) }")
    else:
        w("    impl %s {" % c.name)
        if c.stateful:
            w("        pub fn new() -> Self { bb::constructed(CID); Self { tag: 0, calls: std::cell::Cell::new(0) } }")
        else:
            w("        pub fn new() -> Self { bb::constructed(CID); Self }")
    q = "<CQuery>" if c.custom_chain else ""
    m = "<CMsg>" if c.custom_chain else ""
    for h in c.handlers:
        hid = h.hid()
        w("        %s" % msg_attr(h))
        if h.kind == "reply" and h.reply.legacy:
            w(
                "        #[allow(deprecated)]\n        fn %s(&self, ctx: sylvia::types::ReplyCtx%s, msg: Reply) -> Result<Response%s, %s> %s"
                % (h.fn, q, m, c.err_ty(), body_reply_legacy(h, "G", hid))
            )
        elif h.kind == "reply":
            params, _, _ = reply_params(h)
            w(
                "        fn %s(&self, ctx: ReplyCtx%s, %s) -> Result<Response%s, %s> %s"
                % (h.fn, q, ", ".join(params), m, c.err_ty(), body_reply(h, "G", hid))
            )
        elif h.kind == "query":
            w(
                "        %sfn %s(&self, ctx: %sQueryCtx%s%s) -> Result<%s, %s> %s"
                % ("#[allow(deprecated)] " if c.legacy_ctx else "", h.fn, "sylvia::types::" if c.legacy_ctx else "", q, rust_args(h.args), h.ret, c.err_ty(), body_query(h, "G", hid))
            )
        else:
            w(
                "        %sfn %s(&self, ctx: %s%s%s%s) -> Result<Response%s, %s> %s"
                % (
                    "#[allow(deprecated)] " if c.legacy_ctx else "",
                    h.fn,
                    "sylvia::types::" if c.legacy_ctx else "",
                    h.ctx or CTX[h.kind],
                    q,
                    rust_args(h.args),
                    m,
                    c.err_ty(),
                    body_mut(h, "G", hid, (h.ctx or CTX[h.kind]) in ("InstantiateCtx", "ExecCtx")),
                )
            )
    w("    }")

    # interface impls
    for u in c.uses:
        i = u.iface
        g = "G%s" % i.trait
        gen = "<T>" if c.generic else ""
        if c.generic:
            w(
                "    impl<T> %s::%s::%s for %s<T> where T: serde::Serialize + serde::de::DeserializeOwned + std::fmt::Debug + Clone + PartialEq + sylvia::schemars::JsonSchema + 'static {"
                % (iface_path, i.mod, i.trait, c.name)
            )
        else:
            w("    impl %s::%s::%s for %s {" % (iface_path, i.mod, i.trait, c.name))
        w("        type Error = %s;" % ("ContractError" if u.err == "own" else "StdError"))
        if "ExecC" in i.assoc:
            w("        type ExecC = %s;" % c.msg_ty())
        if "QueryC" in i.assoc:
            w("        type QueryC = %s;" % c.query_ty())
        if "T" in i.assoc:
            w("        type T = %s;" % u.t)
        iq = "<Self::QueryC>" if "QueryC" in i.assoc else ""
        im = "<Self::ExecC>" if "ExecC" in i.assoc else ""
        for h in i.handlers:
            hid = h.hid()
            args = "".join(", %s: %s" % (a.name, "Self::T" if a.ty == "T" else a.ty) for a in h.args)
            if h.kind == "query":
                ret = "Self::T" if h.ret == "T" else h.ret
                w(
                    "        fn %s(&self, ctx: QueryCtx%s%s) -> Result<%s, Self::Error> %s"
                    % (h.fn, iq, args, ret, body_query(h, g, hid))
                )
            else:
                w(
                    "        fn %s(&self, ctx: %s%s%s) -> Result<Response%s, Self::Error> %s"
                    % (h.fn, CTX[h.kind], iq, args, im, body_mut(h, g, hid, h.kind == "exec"))
                )
        w("    }")

    w(emit_spec(c))
    if c.family == "f2":
        w(emit_absence_probe(c))
    w(emit_entry_glue(c, iface_path))
    if c.generic_alt:
        # the same program text instantiated with another type: its own SPEC, glue and cid; the
        # generated entry points exist for the first instantiation only
        import copy

        a = copy.copy(c)
        a.generic = c.generic_alt
        a.generic_alt = None
        a.cid = "%s@%s" % (c.cid, c.generic_alt)
        a.entry_points = False
        w("    pub mod alt {")
        w("        use super::*;")
        w('        pub const CID: &str = "%s";' % a.cid)
        w(emit_spec(a))
        w(emit_entry_glue(a, iface_path))
        w("    }")
    w("}")
    return "\n".join(L)


# --------------------------------------------------------------------------------------
# SPEC


def spec_args(args, tmap=None):
    return "&[%s]" % ", ".join(
        'ArgSpec { name: "%s", ty: "%s", default: %s }' % (a.wire, (tmap or {}).get(a.ty, a.ty), json.dumps(a.default[1] if a.default else ""))
        for a in args
    )


def emit_spec(c):
    hs = []
    for h in c.all_handlers():
        tmap = {}
        if h.part:
            u = [u for u in c.uses if u.iface.trait == h.part][0]
            tmap = {"T": u.t}
        elif c.generic:
            tmap = {"T": c.generic}
        if h.kind == "reply":
            r = h.reply
            rs = "Some(ReplySpec { names: &[%s], on: On::%s, data: DataMode::%s, data_ty: \"%s\", payload_raw: %s, payload: %s })" % (
                ", ".join('"%s"' % n for n in (r.names or [h.fn])),
                r.on.capitalize(),
                r.data,
                r.data_ty,
                "true" if r.payload_raw else "false",
                spec_args(r.payload),
            )
        else:
            rs = "None"
        wire = wire_of(h.fn) if h.kind in ("exec", "query", "sudo") else ""
        hs.append(
            'HandlerSpec { kind: Kind::%s, part: "%s", fn_name: "%s", wire: "%s", alias: "%s", regular: %s, args: %s, ret: "%s", reply: %s }'
            % (
                KIND_ENUM[h.kind],
                h.part,
                h.fn,
                wire,
                h.alias or "",
                "true" if is_regular(h.fn) else "false",
                spec_args(h.args, tmap),
                tmap.get(h.ret, h.ret),
                rs,
            )
        )
    parts = ['PartSpec { name: "", custom_msg: false, custom_query: false, dyn_ty: "" }']
    for u in c.uses:
        parts.append(
            'PartSpec { name: "%s", custom_msg: %s, custom_query: %s, dyn_ty: "%s" }'
            % (u.iface.trait, "true" if u.custom_msg else "false", "true" if u.custom_query else "false", dyn_key(c, u))
        )
    return """
    pub static SPEC: ContractSpec = ContractSpec {
        cid: CID,
        family: "%s",
        custom_chain: %s,
        parts: &[%s],
        handlers: &[
            %s
        ],
        overrides: &[%s],
        replies_feature: %s,
        err: ErrTy::%s,
        entry_points: %s,
        tags: &[%s],
    };
""" % (
        c.family,
        "true" if c.custom_chain else "false",
        ", ".join(parts),
        ",\n            ".join(hs),
        ", ".join("Kind::%s" % KIND_ENUM[k] for k in c.overrides),
        "true" if c.replies else "false",
        "Custom" if c.err == "own" else "Std",
        "true" if c.entry_points else "false",
        ", ".join('"%s"' % t for t in c.tags),
    )


# --------------------------------------------------------------------------------------
# typed glue: store / classify / parts / peer helpers / proxies


def typed_args(h, tmap=None):
    return ", ".join('arg::<%s>(&v, "%s")?' % ((tmap or {}).get(a.ty, a.ty), a.wire) for a in h.args)


def emit_entry_glue(c, iface_path):
    L = []
    w = L.append
    ST = c.self_ty()
    C, Q = c.msg_ty(), c.query_ty()
    # ---- store
    def ep_fn(k):
        if k in c.overrides:
            return "ov::%s" % ENTRY[k]
        return "entry_points::%s" % ENTRY[k]

    has_migrate = c.has("migrate") or "migrate" in c.overrides
    has_reply = c.has("reply") or "reply" in c.overrides
    ep = ""
    if c.entry_points:
        ep = "sylvia::cw_multi_test::ContractWrapper::new(%s, %s, %s).with_sudo(%s)" % (
            ep_fn("exec"),
            ep_fn("instantiate"),
            ep_fn("query"),
            ep_fn("sudo"),
        )
        if has_reply:
            ep += ".with_reply(%s)" % ep_fn("reply")
        if has_migrate:
            ep += ".with_migrate(%s)" % ep_fn("migrate")
        ep = "1 => Some(Box::new(%s))," % ep
    store_body = """match flavour {
            0 => Some(Box::new(%s::%s)),
            %s
            _ => None,
        }""" % (ST.replace("<", "::<"), "with_tag(bb::next_tag())" if c.stateful else "new()", ep)
    w(
        "    pub fn store(flavour: u8) -> Option<Box<dyn sylvia::cw_multi_test::Contract<%s, %s>>> {\n        %s\n    }"
        % (C, Q, store_body)
    )
    # ---- classify
    if c.err == "own":
        w(
            """    pub fn classify(e: &rt::anyhow::Error) -> ErrClass {
        if let Some(c) = e.downcast_ref::<ContractError>() {
            match c {
                ContractError::Scripted { code } => ErrClass::Scripted(*code),
                o => ErrClass::Own(o.to_string()),
            }
        } else if let Some(s) = e.downcast_ref::<StdError>() {
            ErrClass::Std(s.to_string())
        } else {
            ErrClass::Other(format!("{:#}", e))
        }
    }"""
        )
    else:
        w(
            """    pub fn classify(e: &rt::anyhow::Error) -> ErrClass {
        if let Some(s) = e.downcast_ref::<StdError>() {
            let t = s.to_string();
            if let Some(rest) = t.strip_prefix("Generic error: scripted:") {
                if let Ok(code) = rest.parse::<u32>() { return ErrClass::Scripted(code); }
            }
            ErrClass::Own(t)
        } else {
            ErrClass::Other(format!("{:#}", e))
        }
    }"""
        )
    # ---- parts_accept / wrapper / name lists
    def part_ty(kindacc, u=None):
        if u is None:
            return "<%s as ContractApi>::%s" % (ST, kindacc)
        return "<%s as %s::%s::sv::InterfaceMessagesApi>::%s" % (ST, iface_path, u.iface.mod, kindacc)

    arms = []
    for k, acc in (("execute", "Exec"), ("query", "Query"), ("sudo", "Sudo")):
        vs = ['PartVerdict { part: "", res: try_part::<%s>(bytes) }' % part_ty(acc)]
        for u in c.uses:
            vs.append('PartVerdict { part: "%s", res: try_part::<%s>(bytes) }' % (u.iface.trait, part_ty(acc, u)))
        arms.append('"%s" => vec![%s],' % (k, ", ".join(vs)))
    w("    pub fn parts_accept(kind: &str, bytes: &[u8]) -> Vec<PartVerdict> {\n        match kind {\n            %s\n            _ => vec![],\n        }\n    }" % "\n            ".join(arms))
    arms = []
    for k, acc in (("execute", "ContractExec"), ("query", "ContractQuery"), ("sudo", "ContractSudo")):
        arms.append('"%s" => try_part::<%s>(bytes),' % (k, part_ty(acc)))
    arms.append('"instantiate" => try_part::<%s>(bytes),' % part_ty("Instantiate"))
    if c.has("migrate"):
        arms.append('"migrate" => try_part::<%s>(bytes),' % part_ty("Migrate"))
    w('    pub fn wrapper_roundtrip(kind: &str, bytes: &[u8]) -> Result<String, String> {\n        match kind {\n            %s\n            _ => Err("harness: no such wrapper".to_string()),\n        }\n    }' % "\n            ".join(arms))
    arms = []
    for k in ("execute", "query", "sudo"):
        vs = ['("", sv::%s_messages().iter().map(|s| s.to_string()).collect())' % k]
        for u in c.uses:
            vs.append(
                '("%s", %s::%s::sv::%s_messages().iter().map(|s| s.to_string()).collect())' % (u.iface.trait, iface_path, u.iface.mod, k)
            )
        arms.append('"%s" => vec![%s],' % (k, ", ".join(vs)))
    w("    pub fn name_lists(kind: &str) -> Vec<(&'static str, Vec<String>)> {\n        match kind {\n            %s\n            _ => vec![],\n        }\n    }" % "\n            ".join(arms))
    # ---- reply ids
    ids = []
    if c.replies:
        for n, _ in reply_table(c):
            ids.append('("%s", sv::%s_REPLY_ID)' % (n, cc_upper_snake(n)))
    w("    pub fn reply_ids() -> Vec<(&'static str, u64)> { vec![%s] }" % ", ".join(ids))

    # ---- peer helpers typed by the concrete contract
    def tmap_for(h):
        if h.part:
            u = [u for u in c.uses if u.iface.trait == h.part][0]
            return {"T": u.t}
        return {"T": c.generic} if c.generic else {}

    exec_arms = []
    query_arms = []
    for h in c.all_handlers():
        if h.kind not in ("exec", "query"):
            continue
        if h.part:
            u = [u for u in c.uses if u.iface.trait == h.part][0]
            tr = "%s::%s::sv::%s" % (iface_path, u.iface.mod, "Executor" if h.kind == "exec" else "Querier")
        else:
            tr = "sv::%s" % ("Executor" if h.kind == "exec" else "Querier")
        call = "%s(%s)" % (ctor_of(h.fn), typed_args(h, tmap_for(h)))
        if h.kind == "exec":
            exec_arms.append('"%s:%s" => { use %s as _; b.%s? }' % (h.part, h.fn, tr, call))
        else:
            query_arms.append('"%s:%s" => { use %s as _; sylvia::cw_std::to_json_binary(&b.%s?)? }' % (h.part, h.fn, tr, call))
    w(
        """    pub fn peer_exec(storage: &dyn Storage, addr: &Addr, form: u8, slot: Option<&str>, method: &str, args: &[u8], funds: Option<Vec<Coin>>) -> StdResult<WasmMsg> {
        type TT = %s;
        let v = parse_args(args)?;
        // (bit 4 of `form`: the funds are set twice, some other coins first)
        let twice = form & 0x10 != 0 && funds.is_some();
        let b: ExecutorBuilder<(EmptyExecutorBuilderState, TT)> = match form & 0x0f {
            0 => Remote::<TT>::new(addr.clone()).executor(),
            1 => Remote::<TT>::borrowed(addr).executor(),
            2 => ExecutorBuilder::<(EmptyExecutorBuilderState, TT)>::new(addr),
            _ => {
                let raw = storage.get(slot.unwrap_or("remote").as_bytes()).ok_or_else(|| StdError::generic_err("harness: empty remote slot"))?;
                let r: Remote<'static, TT> = sylvia::cw_std::from_json(&raw)?;
                r.executor()
            }
        };
        let b = if twice { b.with_funds(vec![Coin::new(7u128, "decoy")]) } else { b };
        let b = match funds { Some(f) => b.with_funds(f), None => b };
        let ready: ExecutorBuilder<sylvia::types::ReadyExecutorBuilderState> = match method {
            %s
            _ => return Err(StdError::generic_err(format!("harness: no exec method `{}` on %s", method))),
        };
        Ok(ready.build())
    }"""
        % (ST, "\n            ".join(exec_arms), c.cid)
    )
    for suffix, qt in (("e", "Empty"), ("c", "CQuery")):
        w(
            """    pub fn peer_query_%s(q: &QuerierWrapper<%s>, addr: &Addr, form: u8, method: &str, args: &[u8]) -> StdResult<Binary> {
        type TT = %s;
        let v = parse_args(args)?;
        let owned;
        let b: BoundQuerier<%s, TT> = match form {
            0 => { owned = Remote::<TT>::new(addr.clone()); owned.querier(q) }
            1 => { owned = Remote::<TT>::borrowed(addr); owned.querier(q) }
            _ => BoundQuerier::borrowed(addr, q),
        };
        Ok(match method {
            %s
            _ => return Err(StdError::generic_err(format!("harness: no query method `{}` on %s", method))),
        })
    }"""
            % (suffix, qt, ST, qt, "\n            ".join(query_arms), c.cid)
        )
    inst = c.of("instantiate")[0]
    if "instantiate" in c.overrides:
        w("    pub const PEER_INST: Option<rt::registry::InstFn> = None;")
    else:
        gen = "::<%s>" % c.generic if (c.generic and any(a.ty == "T" for a in inst.args)) else ""
        w(
            """    pub fn peer_inst(code_id: u64, args: &[u8], label: Option<&str>, admin: Option<&str>, funds: Option<Vec<Coin>>, salt: Option<Binary>) -> StdResult<WasmMsg> {
        use sv::%sInstantiateBuilder as _;
        let v = parse_args(args)?;
        let mut b = sylvia::builder::instantiate::InstantiateBuilder::%s%s(code_id%s)?;
        // (labels / admins of even length are set over an earlier value: the last one counts)
        if let Some(l) = label { if l.len() %% 2 == 0 { b = b.with_label("first label"); } b = b.with_label(l); }
        if let Some(a) = admin { if a.len() %% 2 == 0 { b = b.with_admin("first-admin".to_string()); } b = b.with_admin(a.to_string()); }
        if let Some(f) = funds { b = b.with_funds(f); }
        Ok(match salt { Some(s) => b.build2(s), None => b.build() })
    }
    pub const PEER_INST: Option<rt::registry::InstFn> = Some(peer_inst);"""
            % (c.name, cc_snake(c.name), gen, "".join(", " + x for x in [typed_args(inst, tmap_for(inst))] if x))
        )
    w(REMOTE_GLUE % (ST, ST, ST, ST, ST, ST, ST))
    w(PEER_CONST)
    # ---- entry
    store_e = "Some(store)" if not c.custom_chain else "None"
    store_c = "Some(store)" if c.custom_chain else "None"
    proxy = "None"
    if "proxy" in c.tags:
        w(emit_proxy_glue(c, iface_path))
        proxy = "Some(PROXY)"
    w(
        """    pub fn entry() -> Entry {
        Entry { spec: &SPEC, store_e: %s, store_c: %s, classify, peer: Some(PEER), parts_accept, wrapper_roundtrip, name_lists, reply_ids, proxy: %s }
    }"""
        % (store_e, store_c, proxy)
    )
    return "\n".join(L)


def dyn_key(c, u):
    """registry key of the `dyn Interface` handle type matching this use"""
    i = u.iface
    t = "<%s>" % u.t if "T" in i.assoc else ""
    chain = "@c" if (c.custom_chain and ("ExecC" in i.assoc or "QueryC" in i.assoc)) else ""
    return "dyn:%s::%s%s%s" % (c.family, i.mod, t, chain)


def emit_dyn_peer(family, i, t, chain, iface_path):
    """typed helper glue for `Remote<dyn Interface<..>>` handles"""
    assoc = ["Error = StdError"]
    if "ExecC" in i.assoc:
        assoc.append("ExecC = %s" % ("CMsg" if chain else "Empty"))
    if "QueryC" in i.assoc:
        assoc.append("QueryC = %s" % ("CQuery" if chain else "Empty"))
    if "T" in i.assoc:
        assoc.append("T = %s" % t)
    TT = "dyn %s::%s::%s<%s>" % (iface_path, i.mod, i.trait, ", ".join(assoc))
    tmap = {"T": t}
    exec_arms, query_arms = [], []
    for h in i.handlers:
        call = "%s(%s)" % (ctor_of(h.fn), typed_args(h, tmap))
        if h.kind == "exec":
            exec_arms.append('"%s:%s" => { use %s::%s::sv::Executor as _; b.%s? }' % (i.trait, h.fn, iface_path, i.mod, call))
        elif h.kind == "query":
            query_arms.append('"%s:%s" => { use %s::%s::sv::Querier as _; sylvia::cw_std::to_json_binary(&b.%s?)? }' % (i.trait, h.fn, iface_path, i.mod, call))
    name = "dynpeer_%s_%s%s" % (i.mod.replace("::", "_"), "".join(ch for ch in (t or "") if ch.isalnum()).lower(), "_c" if chain else "")
    key = "dyn:%s::%s%s%s" % (family, i.mod, "<%s>" % t if "T" in i.assoc else "", "@c" if chain else "")
    out = []
    out.append("pub mod %s {" % name)
    out.append("    use super::*;")
    out.append('    pub const KEY: &str = "%s";' % key)
    out.append("    type TT = %s;" % TT)
    out.append(
        """    pub fn peer_exec(storage: &dyn Storage, addr: &Addr, form: u8, slot: Option<&str>, method: &str, args: &[u8], funds: Option<Vec<Coin>>) -> StdResult<WasmMsg> {
        let v = parse_args(args)?;
        // (bit 4 of `form`: the funds are set twice, some other coins first)
        let twice = form & 0x10 != 0 && funds.is_some();
        let b: ExecutorBuilder<(EmptyExecutorBuilderState, TT)> = match form & 0x0f {
            0 => Remote::<TT>::new(addr.clone()).executor(),
            1 => Remote::<TT>::borrowed(addr).executor(),
            2 => ExecutorBuilder::<(EmptyExecutorBuilderState, TT)>::new(addr),
            _ => {
                let raw = storage.get(slot.unwrap_or("remote").as_bytes()).ok_or_else(|| StdError::generic_err("harness: empty remote slot"))?;
                let r: Remote<'static, TT> = sylvia::cw_std::from_json(&raw)?;
                r.executor()
            }
        };
        let b = if twice { b.with_funds(vec![Coin::new(7u128, "decoy")]) } else { b };
        let b = match funds { Some(f) => b.with_funds(f), None => b };
        let ready: ExecutorBuilder<sylvia::types::ReadyExecutorBuilderState> = match method {
            %s
            _ => return Err(StdError::generic_err(format!("harness: no exec method `{}` on %s", method))),
        };
        Ok(ready.build())
    }"""
        % ("\n            ".join(exec_arms), key)
    )
    for suffix, qt in (("e", "Empty"), ("c", "CQuery")):
        out.append(
            """    pub fn peer_query_%s(q: &QuerierWrapper<%s>, addr: &Addr, form: u8, method: &str, args: &[u8]) -> StdResult<Binary> {
        let v = parse_args(args)?;
        let owned;
        let b: BoundQuerier<%s, TT> = match form {
            0 => { owned = Remote::<TT>::new(addr.clone()); owned.querier(q) }
            1 => { owned = Remote::<TT>::borrowed(addr); owned.querier(q) }
            _ => BoundQuerier::borrowed(addr, q),
        };
        Ok(match method {
            %s
            _ => return Err(StdError::generic_err(format!("harness: no query method `{}` on %s", method))),
        })
    }"""
            % (suffix, qt, qt, "\n            ".join(query_arms), key)
        )
    out.append(REMOTE_GLUE % ("TT", "TT", "TT", "TT", "TT", "TT", "TT"))
    out.append("    pub const PEER_INST: Option<rt::registry::InstFn> = None;")
    out.append(PEER_CONST)
    out.append("}")
    return name, "\n".join(out)


REMOTE_GLUE = """    pub fn peer_admin(addr: &Addr, admin: Option<&str>) -> WasmMsg {
        let r = Remote::<%s>::new(addr.clone());
        match admin { Some(a) => r.update_admin(a), None => r.clear_admin() }
    }
    pub fn peer_save_remote(storage: &mut dyn Storage, slot: &str, addr: &Addr, form: u8) -> StdResult<()> {
        let bytes = if form == 1 {
            sylvia::cw_std::to_json_vec(&Remote::<%s>::borrowed(addr))?
        } else {
            sylvia::cw_std::to_json_vec(&Remote::<%s>::new(addr.clone()))?
        };
        storage.set(slot.as_bytes(), &bytes);
        Ok(())
    }
    pub fn peer_resave_remote(storage: &mut dyn Storage, slot: &str, to: &str) -> StdResult<Addr> {
        let raw = storage.get(slot.as_bytes()).ok_or_else(|| StdError::generic_err("harness: empty remote slot"))?;
        let r: Remote<'static, %s> = sylvia::cw_std::from_json(&raw)?;
        // (the handle is used in between: using it does not change what it is)
        { let _b = r.executor(); }
        storage.set(to.as_bytes(), &sylvia::cw_std::to_json_vec(&r)?);
        Ok(r.as_ref().clone())
    }
    pub fn peer_schema_name() -> String {
        <Remote<'static, %s> as sylvia::schemars::JsonSchema>::schema_name()
    }
    pub fn peer_schema_register(gen: &mut sylvia::schemars::gen::SchemaGenerator) {
        let _ = gen.subschema_for::<Remote<'static, %s>>();
    }
    pub fn peer_schema_root() -> String {
        let root = sylvia::schemars::gen::SchemaGenerator::default().into_root_schema_for::<Remote<'static, %s>>();
        serde_json::to_string(&root).unwrap_or_default()
    }"""

PEER_CONST = """    pub const PEER: rt::registry::PeerFns = rt::registry::PeerFns {
        exec: peer_exec, query_e: peer_query_e, query_c: peer_query_c, inst: PEER_INST,
        admin: peer_admin, save_remote: peer_save_remote, resave_remote: peer_resave_remote,
        schema_name: peer_schema_name,
        schema_register: peer_schema_register,
        schema_root: peer_schema_root,
    };"""


def emit_proxy_glue(c, iface_path):
    """drive the generated multitest proxies from data"""
    APP = "AppC" if c.custom_chain else "AppE"
    VAR = "C" if c.custom_chain else "E"
    ST = c.self_ty()
    inst = c.of("instantiate")[0]

    def tmap_for(h):
        if h.part:
            u = [u for u in c.uses if u.iface.trait == h.part][0]
            return {"T": u.t}
        return {"T": c.generic} if c.generic else {}

    arms = []
    for h in c.all_handlers():
        if h.kind in ("instantiate", "reply"):
            continue
        if h.part:
            u = [u for u in c.uses if u.iface.trait == h.part][0]
            tr = "%s::%s::sv::mt::%sProxy" % (iface_path, u.iface.mod, u.iface.trait)
        else:
            tr = "sv::mt::%sProxy" % c.name
        call = "p.%s(%s)" % (ctor_of(h.fn), typed_args(h, tmap_for(h)))
        if h.kind == "exec":
            arms.append(
                '"%s" => { use %s as _; let e = %s; let e = match funds { Some(f) => e.with_funds(f), None => e }; presp(e.call(sender), classify_own) }'
                % (h.hid(), tr, call)
            )
        elif h.kind == "query":
            arms.append('"%s" => { use %s as _; pval(%s, classify_own) }' % (h.hid(), tr, call))
        elif h.kind == "sudo":
            arms.append('"%s" => { use %s as _; presp(%s, classify_own) }' % (h.hid(), tr, call))
        elif h.kind == "migrate":
            arms.append('"%s" => { use %s as _; presp(%s.call(sender, new_code), classify_own) }' % (h.hid(), tr, call))
    errty = c.err_ty()
    if c.err == "own":
        cls = """match e { ContractError::Scripted { code } => ErrClass::Scripted(*code), ContractError::Std(s) => ErrClass::Std(s.to_string()) }"""
    else:
        cls = """{ let t = e.to_string(); if let Some(rest) = t.strip_prefix("Generic error: scripted:") { if let Ok(code) = rest.parse::<u32>() { return ErrClass::Scripted(code); } } ErrClass::Own(t) }"""
    return ("""
    fn classify_own(e: &%s) -> ErrClass { %s }
    fn presp<E>(r: Result<sylvia::cw_multi_test::AppResponse, E>, cl: fn(&E) -> ErrClass) -> rt::proxy::POut {
        match r { Ok(a) => rt::proxy::POut::Resp(json!({"events": j(&a.events), "data": j(&a.data)})), Err(e) => rt::proxy::POut::Err(cl(&e)) }
    }
    fn pval<V: serde::Serialize, E>(r: Result<V, E>, cl: fn(&E) -> ErrClass) -> rt::proxy::POut {
        match r { Ok(v) => rt::proxy::POut::Val(j(&v)), Err(e) => rt::proxy::POut::Err(cl(&e)) }
    }
    /// the generated `CodeId` plus every `Proxy` value its instantiations returned (kept, so that
    /// later calls on those contracts go through the very value sylvia handed out)
    pub struct PCodeImpl<'a>(sv::mt::CodeId<'a, %s, rt::proxy::__APP__>, std::cell::RefCell<std::collections::BTreeMap<String, sylvia::multitest::Proxy<'a, rt::proxy::__APP__, %s>>>);
    impl<'a> rt::proxy::PCode<'a> for PCodeImpl<'a> {
        fn code_id(&self) -> u64 { self.0.code_id() }
        fn call_kept(&self, addr: &Addr, hid: &str, args: &[u8], funds: Option<&[Coin]>, sender: &Addr, new_code: u64) -> Option<rt::proxy::POut> {
            let kept = self.1.borrow();
            let p = kept.get(addr.as_str())?;
            let run = || -> StdResult<rt::proxy::POut> { let v = parse_args(args)?; proxy_dispatch(p, hid, &v, funds, sender, new_code) };
            Some(match run() { Ok(o) => o, Err(e) => rt::proxy::POut::Err(ErrClass::Other(format!("harness: {}", e))) })
        }
        fn instantiate(&self, args: &[u8], opts: &rt::proxy::InstOpts, sender: &Addr) -> rt::proxy::POut {
            let run = || -> StdResult<rt::proxy::POut> {
                let v = parse_args(args)?;
                let mut p = self.0.instantiate(%s);
                if let Some(l) = opts.label { p = p.with_label(l); }
                if let Some(a) = opts.admin { p = p.with_admin(a); }
                if let Some(f) = opts.funds { p = p.with_funds(f); }
                if let Some(s) = opts.salt { p = p.with_salt(s); }
                Ok(match p.call(sender) { Ok(px) => { let a = px.contract_addr.to_string(); self.1.borrow_mut().insert(a.clone(), px); rt::proxy::POut::Addr(a) } Err(e) => rt::proxy::POut::Err(classify_own(&e)) })
            };
            match run() { Ok(o) => o, Err(e) => rt::proxy::POut::Err(ErrClass::Other(format!("harness: {}", e))) }
        }
    }
    pub fn proxy_store<'a>(app: &'a rt::proxy::Sv__APP__) -> Box<dyn rt::proxy::PCode<'a> + 'a> {
        Box::new(PCodeImpl(sv::mt::CodeId::store_code(app), Default::default()))
    }
    #[allow(unused_variables)]
    fn proxy_dispatch(p: &sylvia::multitest::Proxy<'_, rt::proxy::__APP__, %s>, hid: &str, v: &Value, funds: Option<&[Coin]>, sender: &Addr, new_code: u64) -> StdResult<rt::proxy::POut> {
        Ok(match hid {
            %s
            _ => rt::proxy::POut::Err(ErrClass::Other(format!("harness: no proxy method {}", hid))),
        })
    }
    pub fn proxy_call(app: &rt::proxy::Sv__APP__, addr: &Addr, hid: &str, args: &[u8], funds: Option<&[Coin]>, sender: &Addr, new_code: u64) -> rt::proxy::POut {
        let run = || -> StdResult<rt::proxy::POut> {
            let v = parse_args(args)?;
            let p: sylvia::multitest::Proxy<'_, rt::proxy::__APP__, %s> = sylvia::multitest::Proxy::new(addr.clone(), app);
            proxy_dispatch(&p, hid, &v, funds, sender, new_code)
        };
        match run() { Ok(o) => o, Err(e) => rt::proxy::POut::Err(ErrClass::Other(format!("harness: {}", e))) }
    }
    pub const PROXY: rt::proxy::ProxyFns = rt::proxy::ProxyFns::__VAR__ { store: proxy_store, call: proxy_call };
""" % (
        errty,
        cls,
        ST,
        ST,
        typed_args(inst, tmap_for(inst)),
        ST,
        "\n            ".join(arms),
        ST,
    )).replace("__APP__", APP).replace("__VAR__", VAR)


# --------------------------------------------------------------------------------------
# families


def rnd_args(rng, n, pool=None, names=None):
    pool = pool or ARG_TYPES
    names = names or ["a", "b", "c", "d", "amount", "to", "memo", "n", "_x", "r#type", "data_in", "who"]
    used = set()
    out = []
    for _ in range(n):
        nm = rng.choice([x for x in names if x not in used])
        used.add(nm)
        out.append(Arg(nm, rng.choice(pool)))
    return out


def std_handlers(rng, extra=(), migrate=True, sudo=True):
    hs = [
        Handler("instantiate", "instantiate", rnd_args(rng, rng.randint(0, 2))),
        Handler("exec", "go"),
        Handler("query", "probe", [Arg("x", "u32")], ret="u64", failarg=True),
    ]
    if sudo:
        hs.append(Handler("sudo", "nudge", rnd_args(rng, rng.randint(0, 1))))
    if migrate:
        hs.append(Handler("migrate", "migrate", rnd_args(rng, rng.randint(0, 1))))
    hs.extend(extra)
    return hs


def family_f3(rng):
    """reply tables: every coverage shape, declaration order, payload signature, data mode"""
    cs = []
    PAY_RAW = dict(payload_raw=True, payload=[Arg("payload", "Binary")])
    PAY_ONE = dict(payload=[Arg("p", "Pay")])
    PAY_THREE = dict(payload=[Arg("nonce", "u64"), Arg("tag", "String"), Arg("script", "Script")])

    def mk(mod, replies, err="own", tags=()):
        hs = std_handlers(rng, migrate=False, sudo=False) + replies
        return Contract(mod, "f3", hs, err=err, replies=True, tags=("reply",) + tuple(tags))

    # coverage shapes per name, three payload signatures, both declaration orders
    shapes = []
    idx = 0
    for pay_name, pay in (("raw", PAY_RAW), ("one", PAY_ONE), ("three", PAY_THREE)):
        # success only / error only / always / both via two methods (two orders) on separate names
        s_only = Handler("reply", "s_only", reply=Reply([], "success", **pay))
        e_only = Handler("reply", "e_only", reply=Reply([], "error", **pay))
        alw = Handler("reply", "alw", reply=Reply([], "always", **pay))
        both_s = Handler("reply", "both_ok", reply=Reply(["both"], "success", **pay))
        both_e = Handler("reply", "both_err", reply=Reply(["both"], "error", **pay))
        for order in (0, 1):
            methods = [s_only, e_only, alw] + ([both_s, both_e] if order == 0 else [both_e, both_s])
            if order == 1:
                methods = list(reversed(methods[:3])) + methods[3:]
            import copy

            cs.append(mk("shape_%s_%s" % (pay_name, "ab"[order]), copy.deepcopy(methods), err="own" if order == 0 else "std"))
    # one method serving several names; several names sharing methods
    pay = PAY_ONE
    cs.append(
        mk(
            "shared_a",
            [
                Handler("reply", "on_ok", reply=Reply(["first", "second"], "success", **pay)),
                Handler("reply", "on_err", reply=Reply(["second", "third"], "error", **pay)),
                Handler("reply", "third_ok", reply=Reply(["third"], "success", data="RawOpt", **pay)),
                Handler("reply", "fourth", reply=Reply([], "always", **pay)),
            ],
        )
    )
    cs.append(
        mk(
            "shared_b",
            [
                Handler("reply", "on_err", reply=Reply(["second", "third"], "error", **PAY_RAW)),
                Handler("reply", "fourth", reply=Reply([], "always", **PAY_RAW)),
                Handler("reply", "on_ok", reply=Reply(["first", "second"], "success", **PAY_RAW)),
                Handler("reply", "third_ok", reply=Reply(["third"], "success", **PAY_RAW)),
            ],
            err="std",
        )
    )
    # data modes: all seven on success methods, with / without an error sibling, both orders
    modes = [
        ("Unmarked", ""),
        ("Raw", ""),
        ("RawOpt", ""),
        ("Typed", "Pt"),
        ("Opt", "Pt"),
        ("Instantiate", ""),
        ("InstantiateOpt", ""),
        ("Typed", "String"),
        ("Opt", "u64"),
    ]
    for variant in range(3):
        methods = []
        for k, (mode, ty) in enumerate(modes):
            nm = "d%d" % k
            pay = [PAY_RAW, PAY_ONE, PAY_THREE][(k + variant) % 3]
            ok = Handler("reply", nm + "_ok", reply=Reply([nm], "success", data=mode, data_ty=ty, **pay))
            ok.reply.lint_first = variant == 1 and mode != "Unmarked"
            if variant == 0:
                methods.append(ok)
            elif variant == 1:
                methods.append(ok)
                methods.append(Handler("reply", nm + "_err", reply=Reply([nm], "error", **pay)))
            else:
                # error declared first, success with data second
                methods.append(Handler("reply", nm + "_err", reply=Reply([nm], "error", **pay)))
                methods.append(ok)
        import copy

        cs.append(mk("data_%s" % "abc"[variant], copy.deepcopy(methods), err="own" if variant != 1 else "std", tags=("data",)))
    PAY_NAMES = dict(payload=[Arg("gas_limit", "u64"), Arg("id", "String"), Arg("script", "Script")])
    PAY_BIN = dict(payload=[Arg("blob", "Binary")])
    cs.append(
        mk(
            "names_a",
            [
                Handler("reply", "n_ok", reply=Reply(["named"], "success", data="RawOpt", **PAY_NAMES)),
                Handler("reply", "n_err", reply=Reply(["named"], "error", **PAY_NAMES)),
                Handler("reply", "bin_ok", reply=Reply(["binp"], "success", **PAY_BIN)),
                Handler("reply", "bin_any", reply=Reply(["bina"], "always", **PAY_BIN)),
                Handler("reply", "optd", reply=Reply([], "success", data="Typed", data_ty="Option<u64>", **PAY_NAMES)),
                Handler("reply", "optd_b", reply=Reply([], "success", data="Opt", data_ty="Option<u64>", **PAY_BIN)),
            ],
            tags=("data",),
        )
    )
    # tables at the edges: a single name (always / success only / explicit always), more names
    # than methods, payload values that only the chain's own JSON dialect carries (128 bit integers)
    cs.append(mk("single_a", [Handler("reply", "only", reply=Reply([], "always", **PAY_ONE))]))
    cs.append(mk("single_b", [Handler("reply", "only_ok", reply=Reply([], "success", data="Opt", data_ty="String", **PAY_RAW))], err="std", tags=("data",)))
    fin = Reply(["fin"], "always", **PAY_RAW)
    fin.explicit_always = True
    cs.append(mk("single_c", [Handler("reply", "on_fin", reply=fin)]))
    cs.append(mk("multi_a", [Handler("reply", "any", reply=Reply(["m1", "m2", "m3"], "always", **PAY_ONE))]))
    cs.append(
        mk(
            "multi_b",
            [
                Handler("reply", "oks", reply=Reply(["m1", "m2"], "success", **PAY_THREE)),
                Handler("reply", "errs", reply=Reply(["m2", "m3", "m4"], "error", **PAY_THREE)),
            ],
            err="std",
        )
    )
    # names shared with earlier programs of the crate, at other positions, next to new ones
    cs.append(
        mk(
            "overlap_z",
            [
                Handler("reply", "both_any", reply=Reply(["both"], "always", **PAY_RAW)),
                Handler("reply", "alw", reply=Reply([], "always", **PAY_RAW)),
                Handler("reply", "x1", reply=Reply([], "always", **PAY_RAW)),
                Handler("reply", "second", reply=Reply([], "success", **PAY_RAW)),
                Handler("reply", "x2", reply=Reply([], "error", **PAY_RAW)),
            ],
        )
    )
    # a shared error method declared first, then methods named after the ids it serves; a payload
    # value without members
    cs.append(
        mk(
            "named_z",
            [
                Handler("reply", "on_failure", reply=Reply(["transfer", "swap"], "error", **PAY_ONE)),
                Handler("reply", "transfer", reply=Reply([], "success", **PAY_ONE)),
                Handler("reply", "swap", reply=Reply([], "success", **PAY_ONE)),
                Handler("reply", "zst", reply=Reply([], "always", payload=[Arg("nil", "Nil")])),
                Handler("reply", "nested", reply=Reply([], "always", payload=[Arg("vv", "Vec<Vec<u32>>")])),
            ],
            err="std",
        )
    )
    # one name, two methods with a lone Binary payload, the raw marker on the second only
    mixed_err = Reply(["mix"], "error", payload=[Arg("blob", "Binary")])
    mixed_err.decoy_raw = True
    cs.append(
        mk(
            "mixed_raw",
            [
                Handler("reply", "mix_ok", reply=Reply(["mix"], "success", payload=[Arg("blob", "Binary")])),
                Handler("reply", "mix_err", reply=mixed_err),
                Handler("reply", "plain", reply=Reply([], "always", **PAY_ONE)),
            ],
            err="std",
        )
    )
    # a generic contract with reply tables: a pair on one name, one success method for two names
    # that each have an error method of their own
    g = mk(
        "gen_a",
        [
            Handler("exec", "put", [Arg("item", "T")]),
            Handler("reply", "pair_ok", reply=Reply(["pair"], "success", data="RawOpt", **PAY_ONE)),
            Handler("reply", "pair_err", reply=Reply(["pair"], "error", **PAY_ONE)),
            Handler("reply", "both_ok", reply=Reply(["ga", "gb"], "success", **PAY_ONE)),
            Handler("reply", "ga_err", reply=Reply(["ga"], "error", **PAY_ONE)),
            Handler("reply", "gb_err", reply=Reply(["gb"], "error", **PAY_ONE)),
        ],
    )
    g.generic = "Pt"
    cs.append(g)
    PAY_BIG = dict(payload=[Arg("amount", "u128"), Arg("delta", "i128"), Arg("script", "Script")])
    cs.append(
        mk(
            "names_b",
            [
                Handler("reply", "big_ok", reply=Reply(["big"], "success", data="Opt", data_ty="Pt", **PAY_BIG)),
                Handler("reply", "big_err", reply=Reply(["big"], "error", **PAY_BIG)),
                Handler("reply", "lone_big", reply=Reply([], "always", payload=[Arg("amount", "u128")])),
                Handler("reply", "opt_s", reply=Reply([], "success", data="Opt", data_ty="String", **PAY_ONE)),
            ],
            tags=("data",),
        )
    )
    return [], cs


def iface_lib_f1():
    alpha = Iface(
        "alpha",
        [
            Handler("exec", "alpha_exec", [Arg("x", "u64")]),
            Handler("exec", "ping_alpha"),
            Handler("query", "alpha_query", [Arg("who", "String")], ret="QResp"),
            Handler("query", "alpha_bin", [Arg("k", "String")], ret="Binary"),
            Handler("sudo", "alpha_sudo", [Arg("n", "u32")]),
        ],
    )
    beta = Iface(
        "beta",
        [
            Handler("exec", "beta_exec", [Arg("coins", "Vec<Coin>"), Arg("flag", "bool")]),
            Handler("query", "beta_q", [Arg("a", "i32"), Arg("b", "i32")], ret="String", failarg=True),
            Handler("sudo", "beta_sudo"),
        ],
        assoc=["ExecC", "QueryC"],
    )
    gamma = Iface(
        "gamma",
        [
            Handler("exec", "gamma_put", [Arg("item", "T")]),
            Handler("query", "gamma_echo", [Arg("item", "T")], ret="T"),
        ],
        assoc=["T"],
    )
    delta = Iface(
        "delta",
        [
            Handler("exec", "step2", [Arg("a", "u8")]),
            Handler("exec", "v2"),
            Handler("query", "get_v2_info", ret="u64"),
            Handler("sudo", "x_y_z"),
            Handler("sudo", "sha256sum", [Arg("data_in", "Binary")]),
            Handler("exec", "x_shift", [Arg("by", "i32")]),
            Handler("query", "y_pos", ret="u64"),
        ],
    )
    eps = Iface(
        "eps",
        [
            Handler("query", "eps_one", ret="bool"),
            Handler("query", "eps_two", [Arg("list", "Vec<u32>")], ret="Vec<u32>", failarg=True),
            Handler("query", "eps_unenc", [Arg("n", "u8")], ret="Unenc"),
        ],
    )
    zeta = Iface(
        "zeta",
        [
            Handler("exec", "poke"),
            Handler("exec", "set_up"),
            Handler("sudo", "pong"),
            Handler("query", "pang", [Arg("script", "Script")], ret="String"),
        ],
    )
    weird = Iface(
        "weird",
        [
            Handler("exec", "_lead"),
            Handler("exec", "dbl__us", [Arg("_x", "u32")]),
            Handler("query", "tail_", ret="u64"),
            Handler("sudo", "__both__"),
            Handler("exec", "\u00e9tat"),
            Handler("query", "set_\u00e9lan", ret="bool"),
        ],
    )
    return dict(alpha=alpha, beta=beta, gamma=gamma, delta=delta, eps=eps, zeta=zeta, weird=weird)


def family_f1(rng):
    """dispatch: all handler kinds, 0..3 interfaces, shared names across kinds, odd names, generics"""
    lib = iface_lib_f1()
    cs = []
    T = ("dispatch", "proxy")

    pinge = Iface("pinge", [Handler("exec", "ping"), Handler("sudo", "pinge_sudo")])
    pingq = Iface("pingq", [Handler("query", "ping", [Arg("script", "Script")], ret="String")])
    lib["pinge"] = pinge
    lib["pingq"] = pingq

    cs.append(
        Contract(
            "pa",
            "f1",
            [
                Handler("instantiate", "instantiate", [Arg("a", "u32")]),
                Handler("migrate", "migrate", [Arg("a", "u32")]),
                Handler("exec", "go"),
                Handler("exec", "transfer", [Arg("to", "Addr"), Arg("amount", "Uint128"), Arg("memo", "Option<String>")]),
                Handler("exec", "swap_args", [Arg("first", "String"), Arg("second", "String")]),
                Handler("exec", "swap_nums", [Arg("lo", "u32"), Arg("hi", "u32")]),
                Handler("exec", "z_up", [Arg("n", "u8")]),
                Handler("query", "q_of_x", [Arg("x", "String")], ret="String"),
                Handler("query", "raw_bytes", [Arg("x", "u32")], ret="Binary", failarg=True),
                Handler("query", "unenc", [Arg("n", "u8")], ret="Unenc"),
                Handler("query", "balance_of", [Arg("who", "Addr")], ret="u64", failarg=True),
                Handler("query", "probe", [Arg("x", "u32")], ret="u64", failarg=True),
                Handler("sudo", "nudge", [Arg("n", "u64")]),
                Handler("sudo", "ping"),
            ],
            uses=[Use(pinge), Use(pingq)],
            err="own",
            tags=T + ("regular",),
        )
    )
    cs.append(Contract("pb", "f1", std_handlers(rng), uses=[Use(lib["alpha"])], err="std", tags=T + ("regular",)))
    cs.append(
        Contract(
            "pc",
            "f1",
            std_handlers(rng, extra=[Handler("exec", "foo2", [Arg("n", "u32")]), Handler("query", "get_v3_data", ret="String"), Handler("sudo", "a_b_c")]),
            uses=[Use(lib["alpha"], err="own"), Use(lib["beta"])],
            err="own",
            tags=T + ("regular",),
        )
    )
    cs.append(Contract("pd", "f1", std_handlers(rng), uses=[Use(lib["delta"]), Use(lib["eps"], err="own")], err="own", tags=T + ("regular",)))
    cs.append(Contract("pe", "f1", std_handlers(rng, migrate=False), uses=[Use(lib["gamma"], t="Pt"), Use(lib["alpha"], alias=True)], err="std", tags=T + ("regular",)))
    cs.append(
        Contract(
            "pf",
            "f1",
            [
                Handler("instantiate", "instantiate", [Arg("first", "T")]),
                Handler("exec", "go"),
                Handler("exec", "put", [Arg("item", "T"), Arg("times", "u8")]),
                Handler("query", "echo", [Arg("item", "T")], ret="T"),
                Handler("query", "probe", [Arg("x", "u32")], ret="u64", failarg=True),
                Handler("sudo", "nudge"),
                Handler("migrate", "migrate"),
            ],
            generic="Kd",
            generic_alt="String",
            uses=[Use(lib["alpha"])],
            err="own",
            tags=T + ("regular",),
        )
    )
    cs.append(
        Contract(
            "pg",
            "f1",
            std_handlers(rng, extra=[Handler("query", "poke", [Arg("script", "Script")], ret="String"), Handler("sudo", "pang"), Handler("exec", "pong"), Handler("exec", "setup"), Handler("query", "set_up", [Arg("script", "Script")], ret="String")]),
            uses=[Use(lib["zeta"])],
            err="own",
            tags=T + ("regular", "shared_names"),
        )
    )
    cs.append(Contract("ph", "f1", std_handlers(rng, extra=[Handler("exec", "_under"), Handler("query", "q__q", ret="bool")]), uses=[Use(lib["weird"])], err="std", tags=("dispatch", "irregular")))
    cs.append(Contract("pi", "f1", std_handlers(rng, sudo=False), uses=[Use(lib["alpha"]), Use(lib["delta"], err="own"), Use(lib["eps"])], err="own", tags=T + ("regular",)))
    cs.append(Contract("pj", "f1", std_handlers(rng, sudo=False, migrate=False), uses=[Use(lib["beta"], err="own"), Use(lib["gamma"], t="String")], err="own", tags=T + ("regular",)))
    # wide signatures: many same-typed parameters (positional mix-ups only show there)
    wide = Iface(
        "wide",
        [
            Handler("exec", "wide_exec", [Arg("w%d" % k, "u64") for k in range(12)]),
            Handler("query", "wide_query", [Arg("q%d" % k, "String") for k in range(11)], ret="String"),
            Handler("sudo", "wide_sudo", [Arg("s%d" % k, "u32") for k in range(10)]),
        ],
    )
    lib["wide"] = wide
    cs.append(
        Contract(
            "pk",
            "f1",
            [
                Handler("instantiate", "instantiate", [Arg("i%d" % k, "u32") for k in range(11)]),
                Handler("migrate", "migrate", [Arg("m%d" % k, "String") for k in range(10)]),
                Handler("exec", "go"),
                Handler("exec", "many", [Arg("p%d" % k, "u64") for k in range(11)]),
                Handler("exec", "mixed", [Arg("a", "u64"), Arg("b", "String"), Arg("c", "u64"), Arg("d", "String"), Arg("e", "u64"), Arg("f", "String"), Arg("g", "u64"), Arg("h", "String"), Arg("i", "u64"), Arg("jj", "String"), Arg("k", "u64"), Arg("l", "String")]),
                Handler("query", "lots", [Arg("x%d" % k, "u32") for k in range(13)], ret="String", failarg=True),
                Handler("query", "probe", [Arg("x", "u32")], ret="u64", failarg=True),
                Handler("sudo", "plenty", [Arg("z%d" % k, "String") for k in range(10)]),
            ],
            uses=[Use(wide)],
            err="own",
            tags=T + ("regular",),
        )
    )
    # handler names that do not survive a snake(UpperCamel(..)) round trip, next to handlers of
    # another kind that carry the re-cased name
    recased = Iface("recased", [Handler("exec", "init_2", [Arg("a", "u32")]), Handler("sudo", "migrate_v_2")])
    lib["recased"] = recased
    cs.append(
        Contract(
            "pm",
            "f1",
            [
                Handler("instantiate", "init2", [Arg("a", "u32")]),
                Handler("migrate", "migrate_v2"),
                Handler("exec", "go"),
                Handler("query", "probe", [Arg("x", "u32")], ret="u64", failarg=True),
            ],
            uses=[Use(recased)],
            err="own",
            tags=("dispatch", "irregular"),
        )
    )
    # many parts, many handlers: six interfaces and twenty own exec handlers
    cs.append(
        Contract(
            "pq",
            "f1",
            std_handlers(rng, extra=[Handler("exec", "op%s" % "abcdefghijklmnopqrst"[k], [Arg("n", "u32")]) for k in range(20)] + [Handler("query", "q%s" % "abcdefghij"[k], [Arg("s", "String")], ret="String") for k in range(10)]
            # names whose order as method names differs from their order as wire names
            + [Handler("exec", "phase_1", [Arg("n", "u32")]), Handler("exec", "phase2", [Arg("n", "u32")]), Handler("exec", "phase_10", [Arg("n", "u32")]), Handler("sudo", "tick_2"), Handler("sudo", "tick10")]),
            uses=[Use(lib["alpha"]), Use(lib["beta"]), Use(lib["delta"]), Use(lib["eps"]), Use(lib["zeta"]), Use(lib["wide"])],
            err="own",
            tags=T + ("regular",),
        )
    )
    # the deprecated context types of sylvia::types
    cs.append(Contract("pl", "f1", std_handlers(rng, extra=[Handler("exec", "old_style", [Arg("amount", "Uint128")]), Handler("query", "old_q", [Arg("k", "String")], ret="String")]), uses=[Use(lib["alpha"])], err="std", legacy_ctx=True, tags=T + ("regular",)))
    # a contract without the entry_points macro (multitest deployment only)
    cs.append(Contract("pn", "f1", std_handlers(rng, extra=[Handler("exec", "only_mt", [Arg("n", "u32")])]), uses=[Use(lib["eps"])], err="std", entry_points=False, tags=T + ("regular",)))
    # native 128 bit integer parameters (serde-json-wasm carries them as strings)
    cs.append(
        Contract(
            "pu",
            "f1",
            std_handlers(rng, extra=[Handler("exec", "big", [Arg("amount", "u128"), Arg("delta", "i128")]), Handler("query", "big_q", [Arg("amount", "u128")], ret="String"), Handler("sudo", "big_s", [Arg("delta", "i128")])]),
            err="own",
            tags=("dispatch", "int128", "proxy"),
        )
    )
    # seeded random programs: random handler sets over the closed type set
    words = ["mint", "burn", "lock", "vote", "claim", "stake", "wrap", "list", "info", "cfg", "set_x", "get_y", "do_it", "run9", "ab12_cd"]
    for k in range(4):
        used = {"go", "probe", "nudge", "migrate", "instantiate"}
        extra = []
        for kind in ("exec", "query", "sudo"):
            for _ in range(rng.randint(1, 3)):
                nm = rng.choice([w for w in words if w not in used])
                # the same name may come back in another kind
                if rng.random() < 0.7:
                    used.add(nm)
                if any(h.kind == kind and h.fn == nm for h in extra):
                    continue
                if any(h.fn == nm for h in extra):
                    continue
                args = rnd_args(rng, rng.randint(0, 4))
                if kind == "query":
                    extra.append(Handler("query", nm, args, ret=rng.choice(RET_TYPES), failarg=rng.random() < 0.5))
                else:
                    extra.append(Handler(kind, nm, args))
        pool = [lib[n] for n in ("alpha", "beta", "delta", "eps")]
        uses = [Use(i, err=rng.choice(["std", "own"])) for i in rng.sample(pool, rng.randint(0, 3))]
        cs.append(Contract("pr" + "abcd"[k], "f1", std_handlers(rng, extra=extra, migrate=rng.random() < 0.7), uses=uses, err=rng.choice(["own", "std"]), tags=T + ("regular",)))
    # parameters with a forwarded #[serde(default = "..")] whose value is not None: an omitted
    # member and an explicit null are different arguments (and a None handed to a helper must
    # arrive as None)
    D7 = ("rt::types::some7", "7")
    DW = ("rt::types::some_word", '"dflt"')
    dflt = Iface(
        "dflt",
        [
            Handler("exec", "dflt_exec", [Arg("level", "Option<u32>", default=D7)]),
            Handler("query", "dflt_query", [Arg("level", "Option<u32>", default=D7), Arg("k", "String")], ret="String"),
            Handler("sudo", "dflt_sudo", [Arg("word", "Option<String>", default=DW)]),
        ],
    )
    lib["dflt"] = dflt
    cs.append(
        Contract(
            "pv",
            "f1",
            [
                Handler("instantiate", "instantiate", [Arg("level", "Option<u32>", default=D7), Arg("a", "u32")]),
                Handler("migrate", "migrate", [Arg("word", "Option<String>", default=DW)]),
                Handler("exec", "go"),
                Handler("exec", "tune", [Arg("level", "Option<u32>", default=D7), Arg("note", "Option<String>")]),
                Handler("exec", "rename", [Arg("word", "Option<String>", default=DW)]),
                Handler("query", "probe", [Arg("x", "u32")], ret="u64", failarg=True),
                Handler("query", "tuned", [Arg("level", "Option<u32>", default=D7)], ret="String"),
                Handler("query", "no_args", ret="u64"),
                Handler("query", "only_opt", [Arg("memo", "Option<String>")], ret="String"),
                Handler("query", "maybe", [Arg("x", "u32")], ret="Option<u32>"),
                Handler("sudo", "nudge", [Arg("n", "u64")]),
                Handler("sudo", "retune", [Arg("level", "Option<u32>", default=D7), Arg("n", "u32")]),
            ],
            uses=[Use(dflt)],
            err="own",
            tags=T + ("regular", "defaults"),
        )
    )
    # parameter names that are also names the generated code uses for its own variables
    clash = Iface(
        "clash",
        [
            Handler("exec", "clash_exec", [Arg("msg", "String"), Arg("contract", "u32"), Arg("env", "bool")]),
            Handler("query", "clash_query", [Arg("msg", "u32"), Arg("querier", "String"), Arg("field1", "u8")], ret="String"),
            Handler("sudo", "clash_sudo", [Arg("info", "String"), Arg("deps", "u32")]),
        ],
    )
    lib["clash"] = clash
    cs.append(
        Contract(
            "pw",
            "f1",
            [
                Handler("instantiate", "instantiate", [Arg("msg", "String"), Arg("admin", "u64"), Arg("label", "String")]),
                Handler("migrate", "migrate", [Arg("sender", "String"), Arg("msg", "u8")]),
                Handler("exec", "go"),
                Handler("exec", "collide", [Arg("msg", "String"), Arg("contract", "u32"), Arg("field1", "u8"), Arg("env", "String"), Arg("info", "bool")]),
                Handler("exec", "more", [Arg("deps", "u32"), Arg("sender", "Addr"), Arg("funds", "Vec<Coin>"), Arg("val", "String"), Arg("recv_msg_name", "String")]),
                Handler("query", "probe", [Arg("x", "u32")], ret="u64", failarg=True),
                Handler("query", "who", [Arg("msg", "String"), Arg("contract", "Addr"), Arg("querier", "u8")], ret="String"),
                Handler("sudo", "nudge", [Arg("n", "u64")]),
                Handler("sudo", "shake", [Arg("msg", "u32"), Arg("field2", "String"), Arg("err", "bool")]),
            ],
            uses=[Use(clash)],
            err="own",
            tags=T + ("regular",),
        )
    )
    # a generic contract whose concrete type has generic arguments of its own (with defaults)
    cs.append(
        Contract(
            "pfb",
            "f1",
            [
                Handler("instantiate", "instantiate", [Arg("a", "u32")]),
                Handler("exec", "go"),
                Handler("exec", "put", [Arg("item", "T"), Arg("times", "u8")]),
                Handler("query", "echo", [Arg("item", "T")], ret="T"),
                Handler("query", "probe", [Arg("x", "u32")], ret="u64", failarg=True),
                Handler("sudo", "nudge", [Arg("item", "T")]),
                Handler("migrate", "migrate"),
            ],
            generic="Boxed<u32>",
            uses=[Use(lib["gamma"], t="Boxed<u32>")],
            err="std",
            tags=T + ("regular",),
        )
    )
    # handlers whose context parameter is written with the type of another kind built from the
    # same parts (the annotation decides the kind, not the type)
    cs.append(
        Contract(
            "px",
            "f1",
            [
                Handler("instantiate", "instantiate", [Arg("a", "u32")], ctx="ExecCtx"),
                Handler("migrate", "migrate", [Arg("a", "u32")], ctx="SudoCtx"),
                Handler("exec", "go"),
                Handler("exec", "as_inst", [Arg("n", "u32")], ctx="InstantiateCtx"),
                Handler("query", "probe", [Arg("x", "u32")], ret="u64", failarg=True),
                Handler("sudo", "nudge", [Arg("n", "u64")]),
                Handler("sudo", "rotate", [Arg("key", "u32")], ctx="MigrateCtx"),
            ],
            uses=[Use(lib["alpha"])],
            err="own",
            tags=T + ("regular",),
        )
    )
    # two contract types spelled the same in different modules; a method of the same name is a
    # migrate handler in one and a sudo handler in the other
    cs.append(
        Contract(
            "pt",
            "f1",
            std_handlers(rng, migrate=False) + [Handler("migrate", "upgrade", [Arg("version", "u32")]), Handler("exec", "renew", [Arg("n", "u32")])],
            err="own",
            name="Same",
            tags=T + ("regular",),
        )
    )
    cs.append(
        Contract(
            "py",
            "f1",
            std_handlers(rng, migrate=False) + [Handler("sudo", "upgrade", [Arg("version", "u32")]), Handler("sudo", "renew", [Arg("n", "u32")])],
            err="own",
            name="Same",
            tags=T + ("regular",),
        )
    )
    # a second wire name forwarded to the generated variant
    cs.append(
        Contract(
            "pz",
            "f1",
            std_handlers(
                rng,
                extra=[
                    Handler("exec", "retitle", [Arg("title", "String")], alias="old_retitle"),
                    Handler("query", "titled", [Arg("k", "String")], ret="String", alias="old_titled"),
                    # a parameter whose JSON form nests arbitrarily deep
                    Handler("exec", "plant", [Arg("tree", "Tree")]),
                    Handler("query", "shade", [Arg("tree", "Tree")], ret="u64"),
                    Handler("sudo", "prune", [Arg("tree", "Tree"), Arg("n", "u32")]),
                ],
            ),
            uses=[Use(lib["eps"])],
            err="std",
            tags=T + ("regular",),
        )
    )
    # the chain's own (empty) custom types written out, and an interface bridged into it: the
    # bridge is the same code, and a custom-typed message in a bridged response is still refused
    cs.append(
        Contract(
            "pbe",
            "f1",
            std_handlers(rng, extra=[Handler("exec", "own_exec", [Arg("n", "u32")])]),
            uses=[Use(lib["alpha"], custom_msg=True), Use(lib["eps"], custom_msg=True, custom_query=True)],
            err="std",
            spelled_empty=True,
            tags=("dispatch", "regular", "bridged_empty"),
        )
    )
    # handlers and results at the edges: an exec method without any parameter whose name holds a
    # digit, a query called like an accessor of the helper itself, a renamed parameter behind
    # another forwarded attribute, 128 bit results through an interface
    bigq = Iface("bigq", [Handler("query", "big_total", ret="u128"), Handler("query", "big_of", [Arg("who", "String")], ret="u128")])
    lib["bigq"] = bigq
    cs.append(
        Contract(
            "pedge",
            "f1",
            std_handlers(
                rng,
                extra=[
                    Handler("exec", "mint_v2", script=False),
                    Handler("exec", "claim2", script=False),
                    Handler("query", "code_id", ret="u64"),
                    Handler("exec", "send_to", [Arg("target", "Option<u32>", default=("rt::types::some7", "7"), rename="tgt"), Arg("n", "u32")]),
                    Handler("query", "sent_to", [Arg("target", "Option<u32>", default=("rt::types::some7", "7"), rename="tgt")], ret="String"),
                ],
            ),
            uses=[Use(bigq)],
            err="own",
            tags=T + ("regular",),
        )
    )
    # an instantiate handler that writes nothing, and no migrate handler
    cs.append(
        Contract(
            "pnt",
            "f1",
            [
                Handler("instantiate", "instantiate", [Arg("a", "u32")]),
                Handler("exec", "go"),
                Handler("query", "probe", [Arg("x", "u32")], ret="u64", failarg=True),
                Handler("sudo", "nudge", [Arg("n", "u64")]),
            ],
            uses=[Use(lib["eps"])],
            err="std",
            tags=T + ("regular", "notouch"),
        )
    )
    # two interfaces that live in modules of the same name below different parents
    gate = Iface("first::ops", [Handler("exec", "open_gate", [Arg("n", "u32")]), Handler("query", "gate_state", ret="u64"), Handler("sudo", "gate_tick")], trait="Gate")
    vault = Iface("second::ops", [Handler("exec", "fill_vault", [Arg("n", "u32")]), Handler("query", "vault_state", ret="u64"), Handler("sudo", "vault_tick")], trait="Vault")
    lib["first::ops"] = gate
    lib["second::ops"] = vault
    cs.append(Contract("ptwo", "f1", std_handlers(rng), uses=[Use(gate, alias=True), Use(vault, alias=True)], err="own", tags=T + ("regular",)))
    # struct messages without any member
    cs.append(
        Contract(
            "pnf",
            "f1",
            [
                Handler("instantiate", "instantiate", script=False),
                Handler("migrate", "migrate", script=False),
                Handler("exec", "go"),
                Handler("query", "probe", [Arg("x", "u32")], ret="u64", failarg=True),
                Handler("sudo", "nudge", [Arg("n", "u64")]),
            ],
            uses=[Use(lib["delta"])],
            err="own",
            tags=T + ("regular",),
        )
    )
    # a contract value with in-memory state: the deployment that is handed a value must run
    # the handlers on it, the entry points on what `new()` builds
    cs.append(
        Contract(
            "ps",
            "f1",
            std_handlers(rng, extra=[Handler("exec", "bump", [Arg("n", "u32")]), Handler("query", "seen", ret="u64"), Handler("sudo", "poke_s")]),
            uses=[Use(lib["alpha"])],
            err="own",
            stateful=True,
            tags=T + ("regular",),
        )
    )
    return list(lib.values()), cs


def emit_absence_probe(c):
    """entry points that must NOT exist: a glob import of a same-named probe next to
    `entry_points::*` is ambiguous (E0659) exactly when sylvia emitted that entry point too"""
    must_not = [k for k in KINDS if k in c.overrides]
    if not c.has("migrate") and "migrate" not in must_not:
        must_not.append("migrate")
    if not c.has("reply") and "reply" not in must_not:
        must_not.append("reply")
    if not must_not or not c.entry_points:
        return ""
    fns = "\n".join("            pub fn %s() {}" % ENTRY[k] for k in must_not)
    uses = "\n".join("                let _ = %s;" % ENTRY[k] for k in must_not)
    return """
    pub mod absent_probe {
        pub mod probe {
%s
        }
        pub mod t {
            #[allow(unused_imports)]
            use super::probe::*;
            #[allow(unused_imports)]
            use super::super::entry_points::*;
            pub fn t() {
%s
            }
        }
    }
""" % (fns, uses)


def family_f2(rng):
    """entry point overrides: subsets of overridden kinds x migrate / reply presence x replies feature"""
    side = Iface(
        "side",
        [Handler("exec", "side_exec", [Arg("n", "u32")]), Handler("query", "side_query", [Arg("who", "String")], ret="String"), Handler("sudo", "side_sudo")],
    )
    cs = []
    # all 64 subsets of overridden kinds; migrate / reply presence and the replies feature cycle
    # independently of the subset (periods 3 and 2 against an enumeration by bit mask)
    subsets = []
    for mask in range(64):
        subsets.append([k for i, k in enumerate(KINDS) if mask & (1 << i)])
    for n, sub in enumerate(subsets):
        has_migrate = (n % 3 != 1) or ("migrate" in sub and n % 2 == 0)
        reply_mode = ["none", "feature", "legacy"][n % 3]
        if "reply" in sub and n % 2 == 0:
            reply_mode = ["feature", "legacy", "none"][(n // 2) % 3]
        hs = [
            Handler("instantiate", "instantiate", [Arg("a", "u32")]),
            Handler("exec", "go"),
            Handler("exec", "poke", [Arg("tag", "String")]),
            Handler("query", "probe", [Arg("x", "u32")], ret="u64", failarg=True),
            Handler("sudo", "nudge", [Arg("n", "u32")]),
        ]
        if has_migrate:
            hs.append(Handler("migrate", "migrate", [Arg("a", "u32")]))
        if reply_mode == "feature" and n % 2 == 1:
            # every reply method names its handlers explicitly
            hs.append(Handler("reply", "done_ok", reply=Reply(["done"], "success", payload_raw=True, payload=[Arg("payload", "Binary")])))
            hs.append(Handler("reply", "done_err", reply=Reply(["done", "other"], "error", payload_raw=True, payload=[Arg("payload", "Binary")])))
        elif reply_mode == "feature":
            hs.append(Handler("reply", "on_done", reply=Reply([], "always", payload_raw=True, payload=[Arg("payload", "Binary")])))
        elif reply_mode == "legacy":
            hs.append(Handler("reply", "reply", reply=Reply([], "always", payload_raw=True, payload=[Arg("payload", "Binary")], legacy=True)))
        name = "o" + "".join(chr(ord("a") + int(d)) for d in "%02d" % n)
        # the second half of the enumeration flips the cycled dimensions
        if n >= 32:
            has_migrate = not has_migrate
            reply_mode = {"none": "legacy", "legacy": "feature", "feature": "none"}[reply_mode]
            hs = [h for h in hs if h.kind not in ("migrate", "reply")]
            if has_migrate:
                hs.append(Handler("migrate", "migrate", [Arg("a", "u32")]))
            if reply_mode == "feature":
                hs.append(Handler("reply", "on_done", reply=Reply([], "always", payload_raw=True, payload=[Arg("payload", "Binary")])))
            elif reply_mode == "legacy":
                hs.append(Handler("reply", "reply", reply=Reply([], "always", payload_raw=True, payload=[Arg("payload", "Binary")], legacy=True)))
        cs.append(
            Contract(
                name,
                "f2",
                hs,
                uses=[Use(side)] if n % 4 == 3 else [],
                err=["own", "std"][n % 2],
                overrides=sub,
                replies=(reply_mode == "feature"),
                tags=("override", "regular"),
            )
        )
    # generic contracts with overrides: entry_points(generics<..>) next to override_entry_point
    for n, sub in enumerate([["sudo"], ["exec", "query"], ["migrate", "reply"], []]):
        hs = [
            Handler("instantiate", "instantiate", [Arg("first", "T")]),
            Handler("exec", "go"),
            Handler("exec", "put", [Arg("item", "T")]),
            Handler("query", "probe", [Arg("x", "u32")], ret="u64", failarg=True),
            Handler("query", "echo", [Arg("item", "T")], ret="T"),
            Handler("sudo", "nudge", [Arg("n", "u32")]),
            Handler("migrate", "migrate", [Arg("item", "T")]),
        ]
        if n % 2 == 0:
            hs.append(Handler("reply", "on_done", reply=Reply([], "always", payload_raw=True, payload=[Arg("payload", "Binary")])))
        cs.append(Contract("zg" + "abcd"[n], "f2", hs, uses=[Use(side)], generic=["Pt", "Kd", "String", "u64"][n], err=["own", "std"][n % 2], overrides=sub, replies=(n % 2 == 0), tags=("override", "regular")))
    # the replies feature switched on, no reply handler declared: no `reply` entry point
    hs = [
        Handler("instantiate", "instantiate", [Arg("a", "u32")]),
        Handler("exec", "go"),
        Handler("query", "probe", [Arg("x", "u32")], ret="u64", failarg=True),
        Handler("sudo", "nudge", [Arg("n", "u32")]),
        Handler("migrate", "migrate"),
    ]
    cs.append(Contract("znr", "f2", hs, uses=[Use(side)], err="own", overrides=[], replies=True, tags=("override", "regular")))
    # generic programs with a reply handler of the old style (no `replies` feature)
    for n, sub in enumerate([[], ["sudo"]]):
        hs = [
            Handler("instantiate", "instantiate", [Arg("first", "T")]),
            Handler("exec", "go"),
            Handler("exec", "put", [Arg("item", "T")]),
            Handler("query", "probe", [Arg("x", "u32")], ret="u64", failarg=True),
            Handler("sudo", "nudge", [Arg("n", "u32")]),
            Handler("reply", "reply", reply=Reply([], "always", legacy=True)),
        ]
        if n == 1:
            hs.append(Handler("migrate", "migrate", [Arg("item", "T")]))
        cs.append(Contract("zg" + "ef"[n], "f2", hs, uses=[Use(side)], generic=["Pt", "String"][n], err=["std", "own"][n], overrides=sub, replies=False, tags=("override", "regular")))
    return [side], cs


def family_f5(rng):
    """custom chain: interfaces written for the empty custom types bridged into a contract on a
    chain with custom message / query types, next to native ones"""
    alpha = Iface(
        "alphac",
        [
            Handler("exec", "alpha_exec", [Arg("x", "u64")]),
            Handler("query", "alpha_query", [Arg("who", "String")], ret="QResp"),
            Handler("sudo", "alpha_sudo", [Arg("n", "u32")]),
        ],
    )
    explicit = Iface(
        "explicitc",
        [
            Handler("exec", "explicit_exec", [Arg("memo", "Option<String>")]),
            Handler("sudo", "explicit_sudo"),
            Handler("query", "explicit_query", ret="u64", failarg=True),
        ],
        custom=("Empty", "Empty"),
    )
    beta = Iface(
        "betac",
        [
            Handler("exec", "beta_exec", [Arg("coins", "Vec<Coin>")]),
            Handler("query", "beta_q", [Arg("a", "i32")], ret="String", failarg=True),
            Handler("sudo", "beta_sudo"),
        ],
        assoc=["ExecC", "QueryC"],
    )
    kq = Iface(
        "kqc",
        [Handler("exec", "kq_exec", [Arg("n", "u32")]), Handler("sudo", "kq_sudo"), Handler("query", "kq_query", ret="bool")],
        assoc=["QueryC"],
    )
    km = Iface(
        "kmc",
        [Handler("exec", "km_exec", [Arg("flag", "bool")]), Handler("sudo", "km_sudo"), Handler("query", "km_query", ret="String")],
        assoc=["ExecC"],
    )
    onlyx = Iface("onlyxc", [Handler("exec", "only_exec", [Arg("n", "u8")]), Handler("sudo", "only_sudo")])
    sudoq = Iface("sudoqc", [Handler("sudo", "set_fee", [Arg("fee", "u32")]), Handler("sudo", "sq_tick"), Handler("query", "fee", ret="u64")], assoc=["QueryC"])
    eps = Iface("epsc", [Handler("query", "eps_one", ret="bool"), Handler("query", "eps_two", [Arg("list", "Vec<u32>")], ret="Vec<u32>", failarg=True)])
    RAW = dict(payload_raw=True, payload=[Arg("payload", "Binary")])

    def alw():
        return [Handler("reply", "alw", reply=Reply([], "always", **RAW))]

    cs = []
    T = ("custom", "regular", "proxy")
    cs.append(Contract("ca", "f5", std_handlers(rng) + alw(), uses=[Use(alpha), Use(beta), Use(onlyx, err="std")], err="own", custom_chain=True, replies=True, tags=T))
    cs.append(Contract("cb", "f5", std_handlers(rng) + alw(), uses=[Use(kq, err="own"), Use(km), Use(eps)], err="std", custom_chain=True, replies=True, tags=T))
    cs.append(Contract("cc", "f5", std_handlers(rng, migrate=False), uses=[Use(alpha), Use(explicit), Use(onlyx, err="std")], err="own", custom_chain=True, tags=T))
    cs.append(Contract("cd", "f5", std_handlers(rng) + alw(), err="own", custom_chain=True, replies=True, tags=T))
    cs.append(Contract("ce", "f5", std_handlers(rng, sudo=False) + alw(), uses=[Use(explicit, err="own"), Use(kq, err="std"), Use(beta)], err="std", custom_chain=True, replies=True, tags=T))
    cs.append(
        Contract(
            "cf",
            "f5",
            [
                Handler("instantiate", "instantiate", [Arg("first", "T")]),
                Handler("exec", "go"),
                Handler("exec", "put", [Arg("item", "T"), Arg("n", "u8")]),
                Handler("query", "probe", [Arg("x", "u32")], ret="u64", failarg=True),
                Handler("query", "echo", [Arg("item", "T")], ret="T"),
                Handler("sudo", "nudge"),
                Handler("migrate", "migrate"),
            ]
            + alw(),
            uses=[Use(alpha), Use(kq)],
            generic="Pt",
            err="own",
            custom_chain=True,
            replies=True,
            tags=T,
        )
    )
    cs.append(Contract("cg", "f5", std_handlers(rng, sudo=False) + alw(), uses=[Use(sudoq, err="own"), Use(onlyx)], err="own", custom_chain=True, replies=True, tags=T))
    return [alpha, explicit, beta, kq, km, eps, onlyx, sudoq], cs


FAMILIES = {"f1": family_f1, "f2": family_f2, "f3": family_f3, "f5": family_f5}


def emit_family(name, rng):
    ifaces, contracts = FAMILIES[name](rng)
    d = os.path.join(OUT, name)
    os.makedirs(os.path.join(d, "src"), exist_ok=True)
    files = {}
    files["Cargo.toml"] = """[package]
name = "%s"
version = "0.1.0"
edition = "2021"

[dependencies]
sylvia = { workspace = true }
rt = { workspace = true }
serde = { workspace = true }
thiserror = { workspace = true }
""" % name
    lib = [PRELUDE]
    if ifaces:
        lib.append("pub mod ifaces {\n    use super::*;\n%s\n}" % "\n".join("    " + l for i in ifaces for l in emit_iface(i).split("\n")))
    for c in contracts:
        files["src/%s.rs" % c.mod] = "// generated by gen/gen_corpus.py -- do not edit\nuse super::*;\n" + emit_contract(c, "crate::ifaces").replace(
            "pub mod %s {\n    use super::*;" % c.mod, "", 1
        ).rsplit("}", 1)[0]
        lib.append("pub mod %s;" % c.mod)
    lib.append(
        "pub fn entries() -> Vec<Entry> {\n    vec![\n%s\n    ]\n}"
        % "\n".join(["        %s::entry()," % c.mod for c in contracts] + ["        %s::alt::entry()," % c.mod for c in contracts if c.generic_alt])
    )
    # `dyn Interface` handle types used by the contracts of this family
    combos = []
    for c in contracts:
        for u in c.uses:
            chain = c.custom_chain and ("ExecC" in u.iface.assoc or "QueryC" in u.iface.assoc)
            key = (u.iface.mod, u.t if "T" in u.iface.assoc else "", chain)
            if key not in [k for k, _ in combos]:
                combos.append((key, u.iface))
    names = []
    for (mod, t, chain), i in combos:
        nm, text = emit_dyn_peer(name, i, t, chain, "crate::ifaces")
        lib.append(text)
        names.append(nm)
    lib.append(
        "pub fn dyn_peers() -> Vec<(&'static str, rt::registry::PeerFns)> {\n    vec![\n%s\n    ]\n}"
        % "\n".join("        (%s::KEY, %s::PEER)," % (n, n) for n in names)
    )
    files["src/lib.rs"] = "// generated by gen/gen_corpus.py -- do not edit\n" + "\n".join(lib) + "\n"
    return d, files


def main():
    check = "--check" in sys.argv
    only = [a for a in sys.argv[1:] if not a.startswith("--")]
    bad = 0
    for fam in sorted(FAMILIES):
        if only and fam not in only:
            continue
        rng = random.Random("%d/%s" % (CORPUS_SEED, fam))
        d, files = emit_family(fam, rng)
        for rel, text in files.items():
            p = os.path.join(d, rel)
            if check:
                cur = open(p).read() if os.path.exists(p) else None
                if cur != text:
                    print("DIFF", p)
                    bad += 1
            else:
                os.makedirs(os.path.dirname(p), exist_ok=True)
                with open(p, "w") as f:
                    f.write(text)
        if not check:
            # remove stale generated sources
            keep = set(os.path.join(d, r) for r in files)
            for fn in os.listdir(os.path.join(d, "src")):
                p = os.path.join(d, "src", fn)
                if p not in keep:
                    os.remove(p)
    if check:
        print("corpus check:", "OK" if bad == 0 else "%d files differ" % bad)
        sys.exit(1 if bad else 0)


if __name__ == "__main__":
    main()
